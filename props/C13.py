"""C13 — assume and assert cheatcodes have exactly their stated meaning.

Obligation classes
  table-binding      every key of halmos' assert handler table is the real keccak selector of exactly one signature of
                     the forge-std vm.assert* grammar (lib/c13_sigs, independent of halmos)
  table-hash         the signature text written next to each key in assertions.py (read with `ast`) hashes to the key
  routeZ-handler     per selector and operand shape: the real handler's condition on calldata built by an independent
                     ABI encoder over symbolic words  <=>  the relation derived from the signature text   (solver)
  unsupported-raises selectors whose handler raises NotImplementedError (string[] / bytes[]): never a silent pass
  sevm-assert-paths  test -> (A -> (B ->)) vm.assertXX through the real SEVM at depth 1..3, with and without a fault
                     script that makes the branching solver answer `unknown`:
                         OR(PC of FailCheatcode paths) <=> not(relation),   relation => OR(PC of continuing paths)
  sevm-fail-flags    every reported failing path is seen by halmos' own is_global_fail_set and is not "stuck"
  sevm-assume        vm.assume programs: per end class  OR(PC) <=> (PC_before and c); sibling paths forked before the
                     assume are untouched (both exploration orders); assume(false) leaves no feasible path
  e2e-verdict        run_contract verdict FAIL  <=>  not(relation) satisfiable (real solver)
"""

from __future__ import annotations

import ast
import os
import sys
import time

sys.path.insert(0, os.path.dirname(os.path.dirname(os.path.abspath(__file__))))

from lib import common  # noqa: E402

_CFG = {}


def _task(item):
    kind, ident = item
    t0 = time.time()
    from lib import c13_sigs

    rc = common.Recorder(tier=_CFG["tier"])
    timeout = _CFG["timeout"]
    stats = {}
    if kind == "routez":
        from lib import c13_routez

        sem = c13_sigs.by_selector()[ident][0]
        stats = c13_routez.check_selector(rc, sem, _CFG["tier"], timeout, layouts=_CFG["layouts"])
    elif kind == "paths":
        from lib import c13_paths

        sem = c13_sigs.by_selector()[ident][0]
        stats = c13_paths.check_assert_paths(rc, sem, _CFG["tier"], timeout, scripts=_CFG["scripts"])
    elif kind == "assume":
        from lib import c13_paths

        progs = c13_paths.assume_programs(_CFG["tier"])
        stats = {"programs": 0, "runs": 0, "paths": 0, "dropped_paths_ok": 0, "features": {}}
        for i in ident:
            st = c13_paths.check_assume_program(rc, progs[i], timeout, scripts=_CFG["scripts"])
            stats["programs"] += 1
            for k in ("runs", "paths", "dropped_paths_ok"):
                stats[k] += st[k]
            f = progs[i]["feature"]
            stats["features"][f] = stats["features"].get(f, 0) + 1
    elif kind == "e2e":
        from lib import c13_e2e

        cases = c13_e2e.CASES if _CFG["tier"] == "thorough" else c13_e2e.CASES
        stats = c13_e2e.run_cases(rc, timeout, cases[ident[0]:ident[1]])
    return kind, ident, rc.events, stats, time.time() - t0


def check_table(run):
    """finite and exhaustive: real keccak of every grammar signature against every table key"""
    from halmos.assertions import assert_cheatcode_handler as table

    from lib import c13_sigs

    bysel = c13_sigs.by_selector()
    sems = {}
    for key in table:
        m = bysel.get(key, [])
        k = f"key=0x{key:08x}"
        if len(m) == 1:
            run.ok("table-binding", k)
            sems[key] = m[0]
        else:
            # concrete replay: recompute every hash of the grammar once more
            again = [s.sig for s in c13_sigs.all_signatures() if c13_sigs.selector_of(s.sig) == key]
            if len(again) == len(m):
                run.violation("table-binding", f"table:{k}:matches={len(m)}",
                              f"handler table key 0x{key:08x} is the selector of {len(m)} forge-std vm.assert* signatures "
                              f"(expected exactly one)", {"key": hex(key), "matches": again})
            else:
                run.harness_error(f"table-binding {k}: hash recomputation differs")
    run.extra["grammar_signatures"] = len(c13_sigs.all_signatures())
    run.extra["table_entries"] = len(table)
    run.extra["forge_std_signatures_absent_from_table"] = sorted(
        s.sig for s in c13_sigs.all_signatures() if s.selector not in table)
    # the text next to each key, read from the source with ast (diagnostic binding of text to key)
    path = os.path.join(common.REPO_SRC, "halmos", "assertions.py")
    try:
        tree = ast.parse(open(path).read())
        entries = None
        for node in tree.body:
            if isinstance(node, ast.Assign) and any(isinstance(t, ast.Name) and t.id == "assert_cheatcode_handler"
                                                    for t in node.targets) and isinstance(node.value, ast.Dict):
                entries = list(zip(node.value.keys, node.value.values))
        if entries is None:
            run.inconc("table-hash", "ast", "assert_cheatcode_handler is not a dict literal any more")
        else:
            for k, v in entries:
                if not (isinstance(k, ast.Constant) and isinstance(k.value, int) and isinstance(v, ast.Call)
                        and len(v.args) == 1 and isinstance(v.args[0], ast.Constant) and isinstance(v.args[0].value, str)):
                    run.inconc("table-hash", ast.dump(k)[:40], "entry is not `0x...: f(\"signature\")`")
                    continue
                text = v.args[0].value
                if c13_sigs.selector_of(text) == k.value:
                    run.ok("table-hash", f"key=0x{k.value:08x}")
                else:
                    run.violation("table-hash", f"table:key=0x{k.value:08x}:text-hash-mismatch",
                                  f"assertions.py binds key 0x{k.value:08x} to the text {text!r} whose selector is "
                                  f"0x{c13_sigs.selector_of(text):08x}",
                                  {"key": hex(k.value), "text": text, "selector_of_text": hex(c13_sigs.selector_of(text))})
            if len(entries) != len(table):
                run.inconc("table-hash", "count", f"{len(entries)} literal entries but {len(table)} keys at run time "
                                                  f"(duplicate keys in the literal?)")
    except (OSError, SyntaxError) as e:
        run.inconc("table-hash", "ast", f"cannot read assertions.py: {e}")
    return sems


def replay_file(run, path):
    """re-decide the obligation family a recorded witness belongs to (same selector / program) on the current tree"""
    import json

    from lib import c13_e2e, c13_paths, c13_routez, c13_sigs

    rec = json.load(open(path))
    cls, key = rec["class"], rec["key"]
    print(f"replaying {cls} {key}", flush=True)
    timeout = _CFG["timeout"]
    if cls.startswith("table"):
        check_table(run)
    elif cls == "routeZ-handler":
        sem = c13_sigs.parse(key.split(":")[0])
        c13_routez.check_selector(run, sem, "thorough", timeout, layouts=("canonical", "reversed"))
    elif cls == "e2e-verdict":
        c13_e2e.run_cases(run, timeout)
    elif key.startswith("assert"):
        sem = c13_sigs.parse(key.split(":")[0])
        c13_paths.check_assert_paths(run, sem, "thorough", timeout, scripts=tuple(c13_paths.S.SCRIPTS))
    else:
        name = key.split(":script=")[0]
        for p in c13_paths.assume_programs("thorough"):
            if p["name"] == name:
                c13_paths.check_assume_program(run, p, timeout, scripts=tuple(c13_paths.S.SCRIPTS))
    hit = [v for v in run.violations if v["key"] == key]
    print(f"replay: {'REPRODUCED' if hit else 'not reproduced'} ({len(run.violations)} violations in the family)", flush=True)


def main(run):
    tier = run.tier
    _CFG.update(tier=tier, timeout=20.0 if tier == "quick" else 120.0,
                layouts=("canonical",) if tier == "quick" else ("canonical", "reversed"),
                scripts=("none", "all-unknown") if tier == "quick" else
                ("none", "all-unknown", "first-unknown", "second-unknown", "odd-unknown", "even-unknown"))
    only = set(run.args.only.split(",")) if run.args.only else None

    def want(c):
        return only is None or c in only

    run.functions_encoded = [
        "halmos.assertions.assert_cheatcode_handler[*] (mk_assert_handler, vm_assert_unary, vm_assert_binary, mk_cond)",
        "halmos.utils.extract_bytes / extract_bytes_argument / extract_bytes32_array_argument / extract_string_argument",
        "halmos.cheatcodes.hevm_cheat_code.handle (vm.assert* branch, vm.assume branch)",
        "halmos.sevm.SEVM.run / call / create_branch, Path.branch/append/check, Concretization, Exec.check",
        "halmos.__main__.is_global_fail_set, run_contract / run_test (e2e)",
    ]
    run.assumptions = [
        "operands are well-formed ABI values: bool words are 0/1, address words have 96 zero high bits (what every "
        "Solidity encoder emits); the relation is stated on the decoded values",
        "calldata is the canonical ABI encoding (thorough additionally: tails in reverse order)",
        "the continuing path after vm.assertXX is only required to COVER the inputs satisfying the relation (whether it "
        "also carries the relation is C01's question; observed and reported under continuing_path_observation)",
        "fault scripts model the documented contract of a time-limited branching solver (any Path.check may answer unknown)",
    ]
    if run.args.replay:
        return replay_file(run, run.args.replay)
    sems = check_table(run) if want("table") else {}
    if not sems and want("table"):
        run.harness_error("no table entry was matched by the grammar")
    if not sems:
        from halmos.assertions import assert_cheatcode_handler as table

        from lib import c13_sigs

        sems = {k: v[0] for k, v in c13_sigs.by_selector().items() if k in table and len(v) == 1}

    from lib import c13_e2e, c13_paths

    items = []
    if want("e2e"):
        n = len(c13_e2e.CASES)
        step = (n + 2) // 3
        items += [("e2e", (i, min(n, i + step))) for i in range(0, n, step)]
    if want("assume"):
        nprog = len(c13_paths.assume_programs(tier))
        chunk = 6
        items += [("assume", tuple(range(i, min(nprog, i + chunk)))) for i in range(0, nprog, chunk)]
    dyn_first = sorted(sems, key=lambda k: (not (sems[k].array or sems[k].typ in ("bytes", "string")), sems[k].sig))
    if want("paths"):
        items += [("paths", k) for k in dyn_first]
    if want("routez"):
        items += [("routez", k) for k in dyn_first]
    nproc = min(run.args.jobs, 6 if tier == "quick" else 8)
    results = common.parallel_map(_task, items, nproc)

    agg = {"routez": {}, "paths": {}, "assume": {}, "e2e": {}}
    unsupported = set()
    cont_example = None
    slow = []
    for it, res in zip(items, results):
        if isinstance(res, tuple) and res and res[0] == "error":
            run.harness_error(f"worker {it}: {res[1].strip().splitlines()[-1]}")
            print(res[1], flush=True)
            continue
        kind, ident, events, stats, dt = res
        common.replay_events(run, events)
        slow.append((round(dt, 1), kind, str(ident)[:40]))
        a = agg[kind]
        for k, v in stats.items():
            if isinstance(v, (int, float)) and not isinstance(v, bool):
                a[k] = a.get(k, 0) + v
            elif isinstance(v, dict) and k == "features":
                f = a.setdefault("features", {})
                for kk, vv in v.items():
                    f[kk] = f.get(kk, 0) + vv
        if kind == "routez" and stats.get("raised"):
            unsupported.add(sems[ident].sig)
        if kind == "paths" and stats.get("cont_example") and cont_example is None:
            cont_example = stats["cont_example"]

    run.bounds = {
        "selectors": f"all {len(sems)} keys of assert_cheatcode_handler (each matched to one forge-std signature)",
        "operand_values": "all 2^256 values of every operand word / all byte values of every content byte (symbolic)",
        "array_lengths": "0,1,2 per side (thorough: 0..3), all length pairs, equal / unequal / prefix / aliased / one side concrete",
        "bytes_string_lengths": "0,1,2,33 per side (thorough: 0,1,2,31,32,33,64,65), all pairs",
        "error_message": "length 0 and 3 symbolic, and a concrete 'err'",
        "nesting_depth": "1,2,3 (test -> A -> B -> vm)",
        "fault_scripts": list(_CFG["scripts"]),
        "assume_programs": agg["assume"].get("programs", 0),
        "e2e_tests": agg["e2e"].get("tests", 0),
    }
    run.extra["routeZ"] = agg["routez"]
    run.extra["sevm_assert_paths"] = {k: v for k, v in agg["paths"].items()}
    run.extra["sevm_assume"] = agg["assume"]
    run.extra["e2e"] = agg["e2e"]
    run.extra["unsupported_selectors_raise_NotImplementedError"] = sorted(unsupported)
    run.extra["continuing_path_observation"] = {
        "runs_where_continuing_path_implies_relation": agg["paths"].get("cont_carries_cond", 0),
        "runs_where_continuing_path_admits_not_relation": agg["paths"].get("cont_lacks_cond", 0),
        "example": cont_example,
        "note": "observation only (DESIGN §3 row 6, a C01-type over-approximation); not an obligation of C13",
    }
    run.extra["slowest_tasks"] = sorted(slow, reverse=True)[:5]
    run.extra["explanation"] = (
        "Each obligation is a solver query over symbolic calldata words: either (handler condition != stated relation) "
        "or a class-wise comparison of the path conditions the real SEVM reports with the specification.  unsat = holds "
        "for all operand values of that shape.")

    # vacuity guards
    if want("routez") and agg["routez"].get("nonconst", 0) == 0:
        run.harness_error("route Z never compared a non-constant relation")
    if want("paths"):
        p = agg["paths"]
        if p.get("both_kinds", 0) == 0 or p.get("nested_fail_frames", 0) == 0:
            run.harness_error("no SEVM run produced both a failing and a continuing path / no nested failing frame")
        if p.get("faults", 0) == 0:
            run.harness_error("fault scripts never fired")
    if want("assume"):
        a = agg["assume"]
        if a.get("paths", 0) == 0 or a.get("dropped_paths_ok", 0) == 0:
            run.harness_error("assume programs: no paths / no dropped path observed")
    if want("e2e"):
        e = agg["e2e"]
        if e.get("fail_verdicts", 0) == 0 or e.get("pass_verdicts", 0) == 0:
            run.harness_error(f"e2e: verdicts are not discriminating: {e}")


if __name__ == "__main__":
    common.guarded_main("C13", "proof", main)
