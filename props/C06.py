"""C06 — word-level instruction semantics are exact and total.

Route Z: every cell = (opcode, operand representation tuple).  The real SEVM.run executes the
one-instruction program `[op, STOP]` on a pre-built stack; the term it leaves on the stack (with the exact
definitions of the f_evm_* abstractions inlined) must be *valid-equal* to the Yellow-Paper term (lib/evmspec.zspec)
for all values of the symbolic operands; auxiliary constraints the engine adds must be valid; no internal
exception; each cell finishes within 10 s.  Width-generic HalmosBitVec methods are additionally proved at widths 8/16.
Route P (CrossHair) decides the concrete fast paths over all 256-bit ints (lib/chx.py, props/chx_C06.py).
"""

from __future__ import annotations

import itertools
import os
import random
import signal
import sys
import time

sys.path.insert(0, os.path.dirname(os.path.dirname(os.path.abspath(__file__))))

import z3  # noqa: E402

from lib import common, driver, exact, portfolio  # noqa: E402
from lib.evmspec import ARITY, MASK, OPC, boundary_values, pyspec, zspec  # noqa: E402

from halmos.bitvec import FALSE, TRUE  # noqa: E402
from halmos.bitvec import HalmosBitVec as BV  # noqa: E402
from halmos.bitvec import HalmosBool as HBool  # noqa: E402

W = 256


class CellTimeout(Exception):
    pass


def _alarm(*_):
    raise CellTimeout()


# ---------------------------------------------------------------------------
# operand representations
# ---------------------------------------------------------------------------
class Rep:
    def __init__(self, key, obj, meaning, symbolic, cls):
        self.key, self.obj, self.meaning, self.symbolic, self.cls = key, obj, meaning, symbolic, cls


def rep_const(v):
    cls = "c0" if v == 0 else "c"
    return Rep(f"c:{v:#x}", BV(v, size=W), z3.BitVecVal(v, W), False, cls)


def rep_term(name):
    t = z3.BitVec(name, W)
    return Rep(f"t:{name}", BV(t, size=W), t, True, "t")


def rep_compound(name, kind=0):
    t = z3.BitVec(name, W)
    if kind == 0:
        m = t + z3.BitVecVal(1, W)
    elif kind == 1:
        m = z3.Concat(z3.BitVecVal(0, 96), z3.Extract(159, 0, t))
    else:
        m = z3.ZeroExt(248, z3.Extract(7, 0, t))
    return Rep(f"k{kind}:{name}", BV(m, size=W), m, True, "k")


def rep_bool(name):
    p, q = z3.BitVec(name + "_p", W), z3.BitVec(name + "_q", W)
    c = z3.ULT(p, q)
    return Rep(f"b:{name}", HBool(c), z3.If(c, z3.BitVecVal(1, W), z3.BitVecVal(0, W)), True, "b")


def rep_true():
    return Rep("T", TRUE, z3.BitVecVal(1, W), False, "T")


def rep_false():
    return Rep("F", FALSE, z3.BitVecVal(0, W), False, "F")


def sym_reps(name, tier):
    out = [rep_term(name), rep_bool(name), rep_compound(name, 0)]
    if tier == "thorough":
        out += [rep_compound(name, 1), rep_compound(name, 2)]
    return out


# ---------------------------------------------------------------------------
def cells_for(op, tier, seed):
    """yield tuples of Rep (top of stack first)"""
    full = tier == "thorough"
    B = boundary_values(seed, full=full)
    if not full:
        B = [v for v in B if v in (0, 1, 2, 3, 31, 32, 255, 256, 1 << 64, 1 << 255, MASK, MASK - 1, (1 << 200) + 12345,
                                   (1 << 255) | 1)]
    small_idx = list(range(0, 34)) + [255, 256, 257, 1 << 64, 1 << 255, MASK]
    n = ARITY[op]
    names = ["a", "b", "c"]
    specials = [rep_true(), rep_false()]

    def pos_reps(i):
        consts = B
        if i == 0 and op in ("SIGNEXTEND", "BYTE", "SHL", "SHR", "SAR"):
            consts = small_idx if full else [0, 1, 2, 15, 30, 31, 32, 33, 255, 256, 257, 1 << 255, MASK]
        if i == 1 and op == "EXP":
            consts = [0, 1, 2, 3, 4, 10, 255, 256, 1 << 200, MASK] if full else [0, 1, 2, 3, 256, 1 << 200]
        if n == 3 and not full:
            consts = [0, 1, 3, 1 << 255, MASK]
            return [rep_term(names[i]), rep_bool(names[i])] + specials + [rep_const(v) for v in consts]
        return sym_reps(names[i], tier) + specials + [rep_const(v) for v in consts]

    if n == 3 and full:
        # bound the cube: all symbolic/special combos + consts on a reduced grid
        R = [pos_reps(i) for i in range(3)]
        redu = [0, 1, 2, 3, 255, 1 << 128, 1 << 255, MASK, (1 << 200) + 12345]
        R = [[r for r in rs if r.cls not in ("c", "c0") or int(r.key[2:], 16) in redu] for rs in R]
        yield from itertools.product(*R)
        return
    yield from itertools.product(*[pos_reps(i) for i in range(n)])


def classify(reps):
    return ",".join(r.cls for r in reps)


def main(run: common.Run):
    tier = run.tier
    only = set(run.args.only.split(",")) if run.args.only else None
    run.functions_encoded = [
        "halmos.sevm.SEVM.run (one-instruction programs)", "halmos.sevm.SEVM.arith", "halmos.sevm.bitwise",
        "halmos.sevm.SEVM.sym_byte_of", "halmos.bitvec.HalmosBitVec.* (all operations)",
        "halmos.bitvec.HalmosBool.* (all operations)",
    ]
    run.assumptions = [
        "exact definitions of f_evm_bv{udiv,urem,sdiv,srem,mul}_N are inlined (division/remainder by zero = 0)",
        "EXP with a symbolic exponent or an exponent above --smt-exp-by-const is compared only as the uninterpreted "
        "function f_evm_exp_256(base, exponent) (operand order + congruence); its value is outside the claim",
        "constants in 'concrete' operand positions are drawn from the boundary set B (a stated bound); symbolic "
        "positions range over all 2^256 values",
    ]
    run.bounds = {"width": 256, "reduced_widths": [8, 16], "cell_timeout_s": 10,
                  "solver_cap_s": 20 if tier == "quick" else 120}

    signal.signal(signal.SIGALRM, _alarm)
    selftest(run)

    pend = portfolio.Pool(jobs=max(2, run.args.jobs // 3), timeout=run.bounds["solver_cap_s"], inproc_ms=120)
    ctx = {}
    sevm = driver.mk_sevm()
    ops = [o for o in OPC if not only or o in only]
    ncell = 0
    for op in ops:
        for reps in cells_for(op, tier, run.seed):
            ncell += 1
            do_cell(run, sevm, op, reps, pend, ctx)
    if not only or "WIDTH" in only or only & set(OPC):
        reduced_width(run, pend, ctx, tier, only)

    # Route P: the concrete fast paths over all 256-bit ints (CrossHair, parallel subprocesses, started before the
    # external solver answers are drained)
    route_p = None
    if not only or "P" in only:
        route_p = start_route_p(run, tier)

    # external portfolio answers for what z3 in-process left open
    for key, r in pend.results():
        run.note_solver(r)
        conclude(run, key, r, ctx.pop(key))
    pend.close()
    if route_p is not None:
        finish_route_p(run, route_p)
    run.extra["cells"] = ncell
    run.extra["rule"] = ("cell = (opcode, operand representation tuple) run through the real SEVM; obligation = "
                         "validity query impl==spec (or aux-constraint validity) decided by the solver portfolio; "
                         "distinct_nontrivial counts decided obligations with >=1 symbolic operand")


# ---------------------------------------------------------------------------
def start_route_p(run, tier):
    import tempfile
    import threading

    from lib import chx

    harness = os.path.join(os.path.dirname(os.path.dirname(os.path.abspath(__file__))), "lib", "c06_chx_harness.py")
    err = chx.ensure_venv()
    if err:
        run.inconc("P/concrete", "setup", err)
        return None
    conds = chx.conditions(harness)
    names = ["add_256", "sub_256", "mul_256", "div_256", "mod_256", "addmod_256", "mulmod_256", "not_256", "byte_256", "truncation"]
    if tier == "thorough":
        names += ["shl_256", "shr_256", "exp_small"]
    tmpdir = tempfile.mkdtemp(prefix="verif_c06p_")
    twin_file = chx.make_twin(harness, tmpdir)
    twins = chx.conditions(twin_file)
    groups = []
    for n in names:
        groups.append(conds[n])
    for n in names[:3] if tier == "quick" else names:
        t = twins[n]
        t.twin = True
        groups.append(t)
    box = {}
    timeout = 60 if tier == "quick" else 300

    def work():
        box["res"] = chx.run_many(groups, timeout, jobs=8)

    th = threading.Thread(target=work, daemon=True)
    th.start()
    return dict(th=th, box=box, groups=groups, harness=harness, tmpdir=tmpdir, timeout=timeout)


def finish_route_p(run, rp):
    import shutil

    from lib import chx

    rp["th"].join(timeout=rp["timeout"] * 6 + 300)
    res = rp["box"].get("res")
    try:
        if res is None:
            run.inconc("P/concrete", "all", "CrossHair conditions did not finish")
            return
        for c, v in zip(rp["groups"], res):
            name = c.name + ("/reachability-twin" if c.twin else "")
            if c.twin:
                # the twin (post: False) must be refuted, otherwise the harness is vacuous
                if v.status == "counterexample":
                    run.ok("P/concrete", name, nontrivial=False)
                elif v.status == "confirmed":
                    run.harness_error(f"route P harness {c.name} is vacuous (post: False confirmed)")
                else:
                    run.inconc("P/concrete", name, f"twin: {v.status} {v.message[:80]}")
                continue
            if v.status == "confirmed":
                run.ok("P/concrete", name)
            elif v.status == "counterexample" and v.call:
                r = chx.replay(rp["harness"], v.call)
                if r.get("reproduced"):
                    run.violation("P/concrete", f"concrete/{c.name.split('_')[0].upper()}",
                                  f"concrete fast path: {v.call} does not give the EVM result ({r.get('detail') or r.get('raised')})",
                                  {"call": v.call, "replay": r})
                else:
                    run.inconc("P/concrete", name, f"counterexample {v.call} does not reproduce under /venv ({r})"[:300])
            else:
                run.inconc("P/concrete", name, f"{v.status}: {v.message[:100]}")
    finally:
        shutil.rmtree(rp["tmpdir"], ignore_errors=True)


# ---------------------------------------------------------------------------
def selftest(run):
    """zspec (z3) and pyspec (python ints) must agree on a grid; otherwise the oracle itself is broken."""
    B = boundary_values(run.seed, full=False)[:14] + [31, 32, 255, 256]
    bad = 0
    for op in OPC:
        if op == "EXP":
            continue
        n = ARITY[op]
        for vals in itertools.product(B, repeat=n) if n < 3 else itertools.product(B[::3], repeat=3):
            args = [z3.BitVecVal(v, W) for v in vals]
            zv = z3.simplify(zspec(op, *args))
            pv = pyspec(op, *vals)
            if not z3.is_bv_value(zv) or zv.as_long() != pv:
                bad += 1
                run.harness_error(f"oracle self-test: zspec/pyspec disagree on {op}{vals}")
                if bad > 3:
                    return
    run.extra["oracle_selftest"] = "zspec==pyspec on boundary grid"


def result_term(w):
    return driver.word_to_z3(w)


def do_cell(run, sevm, op, reps, pend, ctx):
    cls = f"sevm/{op}"
    key = f"{op}/{classify(reps)}/" + "|".join(r.key for r in reps)
    symbolic = any(r.symbolic for r in reps)
    t0 = time.time()
    signal.alarm(10)
    try:
        try:
            recs = driver.one_insn(sevm, OPC[op], [r.obj for r in reps])
        finally:
            signal.alarm(0)
    except CellTimeout:
        report(run, cls, op, reps, "hang", f"{op} did not finish within 10 s")
        return
    except Exception as e:  # internal exception escaping the engine
        report(run, cls, op, reps, f"exception:{type(e).__name__}", f"{op} raised {type(e).__name__}: {e}")
        return
    if len(recs) != 1:
        report(run, cls, op, reps, "paths", f"{op} produced {len(recs)} paths")
        return
    rec = recs[0]
    if rec.error is not None or rec.data is None:
        report(run, cls, op, reps, f"error:{type(rec.error).__name__}",
               f"{op} ended with internal error {type(rec.error).__name__}: {rec.error}")
        return
    if len(rec.stack) != 1:
        report(run, cls, op, reps, "stack", f"{op} left {len(rec.stack)} stack items")
        return
    try:
        impl = result_term(rec.stack[0])
    except TypeError as e:
        report(run, cls, op, reps, "type", f"{op} result: {e}")
        return
    meanings = [r.meaning for r in reps]

    # ---- EXP: partial claim -------------------------------------------------
    if op == "EXP":
        a, b = meanings
        if not reps[1].symbolic and not reps[0].symbolic:
            spec = z3.BitVecVal(pyspec("EXP", int(reps[0].key[2:], 16) if reps[0].cls in ("c", "c0") else (1 if reps[0].cls == "T" else 0),
                                       int(reps[1].key[2:], 16) if reps[1].cls in ("c", "c0") else (1 if reps[1].cls == "T" else 0)), W)
        else:
            ev = None
            if not reps[1].symbolic:
                ev = z3.simplify(b).as_long()
            decls = exact.abstraction_decls([impl])
            if "f_evm_exp_256" in decls:
                # operand order / congruence only
                spec = decls["f_evm_exp_256"](a, b)
            elif ev is not None and ev <= 8:
                spec = z3.BitVecVal(1, W)
                for _ in range(ev):
                    spec = spec * a
            else:
                run.inconc(cls, key, "EXP form not recognised")
                return
    else:
        spec = zspec(op, *meanings)

    impl_x = exact.inline(impl)
    conds_x = [exact.inline(c) for c in rec.conds]

    if not symbolic:
        # concrete grid cell: result must be the constant the Yellow Paper gives
        s = z3.simplify(impl_x)
        sp = z3.simplify(spec)
        if z3.is_bv_value(s) and z3.is_bv_value(sp):
            if s.as_long() == sp.as_long():
                run.ok(cls + "/concrete", key, nontrivial=False)
            else:
                report(run, cls, op, reps, "wrong", f"{op} concrete result {s.as_long():#x} != spec {sp.as_long():#x}")
            return
    # main obligation
    k1 = key + "#eq"
    ctx[k1] = dict(cls=cls, op=op, reps=reps, impl=impl_x, spec=spec, kind="wrong")
    _submit(run, pend, ctx, k1, [impl_x != spec])
    # auxiliary constraints must be valid (they must not exclude any input)
    for i, c in enumerate(conds_x):
        k2 = key + f"#aux{i}"
        ctx[k2] = dict(cls=cls + "/aux", op=op, reps=reps, impl=c, spec=z3.BoolVal(True), kind="aux-not-valid")
        _submit(run, pend, ctx, k2, [z3.Not(c)])
    run.sample({"cell": key, "impl": str(impl)[:160], "spec": str(z3.simplify(spec))[:160],
                "aux": [str(c)[:100] for c in rec.conds]}, limit=10)


def _submit(run, pend, ctx, key, assertions):
    pend.submit(key, assertions)
    # conclude what is already decided to keep memory flat
    while pend.done:
        k, r = pend.done.pop()
        run.note_solver(r)
        conclude(run, k, r, ctx.pop(k))


def conclude(run, key, r, c):
    cls = c["cls"]
    if r.status == "unsat":
        run.ok(cls, key)
        ctx_free(c)
    elif r.status == "sat":
        # replay: evaluate the real code's term and the spec on the witness
        iv = portfolio.eval_model(c["impl"], r.model)
        sv = portfolio.eval_model(c["spec"], r.model)
        same = (z3.is_bv_value(iv) and z3.is_bv_value(sv) and iv.as_long() == sv.as_long()) or (
            z3.is_true(iv) and z3.is_true(sv))
        definite = (z3.is_bv_value(iv) and z3.is_bv_value(sv)) or (z3.is_bool(iv) and (z3.is_true(iv) or z3.is_false(iv)))
        if definite and not same:
            what = (f"{c['op']} with operands {[r_.key for r_ in c['reps']]}: engine term evaluates to {iv} but EVM gives "
                    f"{sv} on witness { {k: hex(v) if isinstance(v, int) else v for k, v in r.model.items()} }")
            report(run, cls, c["op"], c["reps"], c["kind"], what, witness=r.model)
        else:
            run.inconc(cls, key, f"model from {r.backend} did not replay (iv={str(iv)[:40]}, sv={str(sv)[:40]})")
    elif r.status == "disagree":
        run.harness_error(f"solver disagreement on {key}: {r.answers}")
    else:
        run.inconc(cls, key, f"all back ends unknown within cap: {r.answers}")


def ctx_free(c):
    c.pop("impl", None)
    c.pop("spec", None)


def report(run, cls, op, reps, kind, what, witness=None):
    key = f"{op}/{kind}/{classify(reps)}"
    run.violation(cls, key, what, {"op": op, "operands": [r.key for r in reps], "model": witness or {},
                                   "replay": "props/C06.py --replay re-runs this cell"})


# ---------------------------------------------------------------------------
# width-generic methods at reduced widths
# ---------------------------------------------------------------------------
def reduced_width(run, pend, ctx, tier, only):
    meth = {
        "ADD": lambda a, b, F: a.add(b), "SUB": lambda a, b, F: a.sub(b),
        "MUL": lambda a, b, F: a.mul(b, abstraction=F("bvmul", a.size)),
        "DIV": lambda a, b, F: a.div(b, abstraction=F("bvudiv", a.size)),
        "SDIV": lambda a, b, F: a.sdiv(b, abstraction=F("bvsdiv", a.size)),
        "MOD": lambda a, b, F: a.mod(b, abstraction=F("bvurem", a.size)),
        "SMOD": lambda a, b, F: a.smod(b, abstraction=F("bvsrem", a.size)),
        "SHL": lambda a, b, F: b.lshl(a), "SHR": lambda a, b, F: b.lshr(a), "SAR": lambda a, b, F: b.ashr(a),
        "AND": lambda a, b, F: a.bitwise_and(b), "OR": lambda a, b, F: a.bitwise_or(b),
        "XOR": lambda a, b, F: a.bitwise_xor(b),
        "LT": lambda a, b, F: a.ult(b), "GT": lambda a, b, F: a.ugt(b), "SLT": lambda a, b, F: a.slt(b),
        "SGT": lambda a, b, F: a.sgt(b), "EQ": lambda a, b, F: a.eq(b),
    }
    meth3 = {
        "ADDMOD": lambda a, b, c, F: a.addmod(b, c, abstraction=F("bvurem", a.size + 8)),
        "MULMOD": lambda a, b, c, F: a.mulmod(b, c, mul_abstraction=F("bvmul", 2 * a.size),
                                              mod_abstraction=F("bvurem", 2 * a.size)),
    }

    def F(kind, n):
        s = z3.BitVecSort(n)
        return z3.Function(f"f_evm_{kind}_{n}", s, s, s)

    sizes = [8, 16] if tier == "thorough" else [8]
    for size in sizes:
        consts = list(range(1 << size)) if size == 8 else [0, 1, 2, 3, 4, 255, 256, 257, 0x7FFF, 0x8000, 0x8001, 0xFFFE, 0xFFFF]
        if tier == "quick":
            consts = [0, 1, 2, 3, 4, 5, 7, 8, 9, 16, 64, 127, 128, 129, 254, 255]
        for op, f in list(meth.items()) + list(meth3.items()):
            if only and op not in only and "WIDTH" not in only:
                continue
            n = 3 if op in meth3 else 2
            cls = f"width{size}/{op}"
            names = ["a", "b", "c"][:n]
            # every mix of (term | const) with at least one term
            for mask in range(1, 1 << n):
                sym_pos = [i for i in range(n) if mask >> i & 1]
                con_pos = [i for i in range(n) if not mask >> i & 1]
                cvals = consts if len(con_pos) <= 1 else [0, 1, 2, 3, (1 << size) - 1, 1 << (size - 1)]
                for cv in itertools.product(cvals, repeat=len(con_pos)):
                    objs, means, keys = [None] * n, [None] * n, [None] * n
                    for i in sym_pos:
                        t = z3.BitVec(f"{names[i]}{size}", size)
                        objs[i], means[i], keys[i] = BV(t, size=size), t, "t"
                    for i, v in zip(con_pos, cv):
                        objs[i], means[i], keys[i] = BV(v, size=size), z3.BitVecVal(v, size), f"c:{v:#x}"
                    key = f"{op}@{size}/" + "|".join(keys)
                    try:
                        res = f(*objs, F)
                    except Exception as e:
                        run.violation(cls, f"{op}@{size}/exception:{type(e).__name__}/" + ",".join(k[0] for k in keys),
                                      f"{op} at width {size} raised {type(e).__name__}: {e}", {"operands": keys})
                        continue
                    if isinstance(res, HBool):
                        impl = z3.If(res.as_z3(), z3.BitVecVal(1, size), z3.BitVecVal(0, size))
                    else:
                        impl = res.as_z3()
                        if impl.size() != size:
                            run.violation(cls, f"{op}@{size}/size", f"result width {impl.size()}", {"operands": keys})
                            continue
                    impl = exact.inline(impl)
                    spec = zspec(op, *means, size=size)
                    k1 = key + "#eq"
                    ctx[k1] = dict(cls=cls, op=f"{op}@{size}", reps=[Rep(k, None, None, k == "t", k[0]) for k in keys],
                                   impl=impl, spec=spec, kind="wrong")
                    _submit(run, pend, ctx, k1, [impl != spec])
        # fully concrete grid at this width (enumerated, not solver-decided): fast paths vs Yellow Paper
        grid = range(1 << size) if (size == 8 and tier == "thorough") else [0, 1, 2, 3, 7, 8, 9, 127, 128, 129, 200, 254, 255]
        if size == 8:
            bad = 0
            cnt = 0
            for op, f in meth.items():
                if only and op not in only and "WIDTH" not in only:
                    continue
                for a in grid:
                    for b in grid:
                        cnt += 1
                        try:
                            res = f(BV(a, size=size), BV(b, size=size), F)
                            got = (1 if res.is_true else 0 if res.is_false else None) if isinstance(res, HBool) else (
                                res.value if res.is_concrete else None)
                        except Exception as e:
                            got = f"exception {type(e).__name__}"
                        want = pyspec(op, a, b, size=size)
                        if got != want:
                            bad += 1
                            if bad <= 5:
                                run.violation(f"width{size}/concrete", f"{op}@{size}/wrong/c,c",
                                              f"{op} at width 8 on concrete ({a},{b}) gives {got}, EVM gives {want}",
                                              {"op": op, "a": a, "b": b})
            run.extra[f"concrete_grid_width{size}"] = {"evaluations": cnt, "mismatches": bad,
                                                       "note": "enumerated, not solver-decided"}
            if bad == 0:
                run.ok(f"width{size}/concrete", "grid", nontrivial=False)


if __name__ == "__main__":
    common.guarded_main("C06", "proof", main)
