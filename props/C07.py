"""C07 — byte sequences behave as a flat zero-extended byte array.

Route Z (main): deterministic, exhaustive enumeration of operation histories (append / set_byte / set_word /
set_slice(bytes | symbolic term | ByteVec | slice of itself = MCOPY) / slice / copy / State deep copy / use of one
vector as a value of another) on the *real* halmos ByteVec with SYMBOLIC content (z3 8/24/256-bit constants, mixed
with concrete bytes) and offsets on a grid around the chunk boundaries.  After every history each public read
(get_byte(i) for all i <= len+2, get_word, slice().unwrap(), [] , unwrap, len) of every live vector must be
valid-equal — unsat of the negation, z3 in-process, lib/portfolio race on unknown — to a flat reference (a Python
list of 8-bit z3 terms with zero fill).  Copy independence = histories that fork (copy / deepcopy(State) / slice)
and keep writing to either side.  sat answers are replayed (real code re-run, result evaluated on the witness and
compared with the reference computed on plain ints; the fully concrete run is recorded too).
Route Z/SEVM: MSTORE / MSTORE8 / MCOPY / CALLDATACOPY / RETURN programs through the real SEVM on symbolic words.
Route P: CrossHair conditions with symbolic OFFSETS / lengths and symbolic concrete content (lib/chx07.py).
"""

from __future__ import annotations

import itertools
import json
import os
import shutil
import signal
import sys
import tempfile
import time

sys.path.insert(0, os.path.dirname(os.path.dirname(os.path.abspath(__file__))))

import z3  # noqa: E402

from lib import c07_model as M  # noqa: E402
from lib import chx07, common, portfolio  # noqa: E402

from halmos.bytevec import ByteVec  # noqa: E402

# (level, history length, initial vectors)
BLOCKS = {
    "quick": [("full", 1, M.INITS), ("small", 2, M.INITS), ("medium", 2, ("W3",)), ("small", 3, ("W3", "M", "N"))],
    "thorough": [("full", 1, M.INITS), ("small", 2, M.INITS), ("medium", 2, M.INITS), ("small", 3, M.INITS),
                 ("large", 2, ("W3", "M", "N")), ("mid3", 3, ("W3", "M", "N")), ("tiny", 4, ("W3",))],
}
Z_BUDGET_S = {"quick": 185, "thorough": 25 * 60}
CAND_PER_UNIT = 6
_ALPH: dict = {}


def alph(level):
    if level not in _ALPH:
        _ALPH[level] = M.alphabet(level)
    return _ALPH[level]


# ---------------------------------------------------------------------------
# worker side
# ---------------------------------------------------------------------------
def _mentions_symbol(e) -> bool:
    seen, stack = set(), [e]
    while stack:
        x = stack.pop()
        i = x.get_id()
        if i in seen:
            continue
        seen.add(i)
        if z3.is_const(x):
            if x.decl().kind() == z3.Z3_OP_UNINTERPRETED:
                return True
            continue
        stack.extend(x.children())
    return False


def _model_dict(m) -> dict:
    out = {}
    for d in m.decls():
        v = m[d]
        if z3.is_bv_value(v):
            out[d.name()] = v.as_long()
        elif z3.is_true(v):
            out[d.name()] = True
        elif z3.is_false(v):
            out[d.name()] = False
    return out


class Hang(BaseException):
    """not an Exception: must not be swallowed by the `except Exception` that classifies real-code errors"""


class watchdog:
    """SIGALRM guard around calls into the real code (a mutant may loop forever)"""

    def __init__(self, seconds=15.0):
        self.seconds = seconds

    def _fire(self, *_):
        raise Hang()

    def __enter__(self):
        self.old = signal.signal(signal.SIGALRM, self._fire)
        signal.setitimer(signal.ITIMER_REAL, self.seconds)

    def __exit__(self, *exc):
        signal.setitimer(signal.ITIMER_REAL, 0)
        signal.signal(signal.SIGALRM, self.old)
        return False


def check_history(S, init, ops, do_twin, cap_s):
    """-> list of per-vector records {var, status, ...}; status in ok|inconc|cand"""
    dom = M.SymDom()
    recs = []
    try:
        with watchdog():
            env, refs, st = M.run_history(dom, init, ops)
    except M.OpError as e:
        return [{"var": "A", "status": "cand", "kind": "exception", "label": M.op_sig(e.op),
                 "detail": f"{type(e.exc).__name__}: {e.exc}"[:200], "exc": type(e.exc).__name__}], M.new_stats(), 0.0
    except Hang:
        return [{"var": "A", "status": "cand", "kind": "hang", "label": "write", "exc": "Hang",
                 "detail": "an operation did not return within 15 s"}], M.new_stats(), 0.0
    tsolve = 0.0
    for name in ("A", "B"):
        V = env[name]
        if V is None:
            continue
        rec = {"var": name, "status": "ok", "nontrivial": False}
        recs.append(rec)
        try:
            with watchdog():
                pairs, bad = M.observe(V, refs[name], dom.zero, name, extra_pass=do_twin)
        except Hang:
            rec.update(status="cand", kind="hang", label=f"{name}.read", exc="Hang",
                       detail="a read did not return within 15 s")
            continue
        except M.ReadError as e:
            rec.update(status="cand", kind="read_exception", label=e.label,
                       detail=f"{type(e.exc).__name__}: {e.exc}"[:200], exc=type(e.exc).__name__)
            continue
        if bad:
            rec.update(status="cand", kind="concrete", label=bad[0][0], detail=f"got {bad[0][1]!r}, want {bad[0][2]!r}")
            continue
        rec["nontrivial"] = _mentions_symbol(pairs[0][1]) or _mentions_symbol(pairs[0][2])
        t0 = time.time()
        for label, impl, ref, _nb in pairs:
            S.push()
            S.add(impl != ref)
            r = S.check()
            if r == z3.sat:
                rec.update(status="cand", kind="sat", label=label, model=_model_dict(S.model()), backend="z3")
                S.pop()
                break
            S.pop()
            if r != z3.unsat:
                res = portfolio.solve([impl != ref], timeout=cap_s, inproc_ms=1)
                rec.setdefault("ext", []).append((res.backend, round(res.time, 2)))
                if res.status == "sat":
                    rec.update(status="cand", kind="sat", label=label, model=res.model, backend=res.backend)
                    break
                if res.status != "unsat":
                    rec.update(status="inconc", label=label, detail=f"solver: {res.status} {res.answers}")
                    break
        if do_twin and rec["status"] == "ok":
            # sensitivity twin: against a *wrong* reference (first byte string + 1) the same query must be sat
            label, impl, ref, nb = pairs[0]
            S.push()
            S.add(impl != ref + z3.BitVecVal(1, 8 * nb))
            rec["twin"] = str(S.check())
            S.pop()
        tsolve += time.time() - t0
    return recs, st, tsolve


def _unit(u):
    """one work unit: all histories of a block that start with a given first operation"""
    if u[0] == "sevm":
        try:
            return {"sevm": _sevm_one(u[1])}
        except Exception:  # noqa: BLE001
            import traceback

            return {"sevm": ("error", traceback.format_exc())}
    uid, init, level, length, first, cap_s, deadline = u
    al = alph(level)
    S = z3.Solver()
    S.set("timeout", 4000)
    out = {"uid": uid, "init": init, "level": level, "length": length, "first": first, "hist": 0, "skipped": 0,
           "classes": {}, "sigs": {}, "cands": [], "ncand": 0, "inconc": [], "stats": M.new_stats(),
           "hist_with": {k: 0 for k in M.new_stats()}, "twin_ok": 0, "twin_bad": [], "solver_s": 0.0, "ext": {},
           "sample": None, "wall": 0.0, "herr": []}
    t0 = time.time()
    n = 0
    # `first` is a tuple of prefixes (tuples of alphabet indices); the unit enumerates every completion of each
    for ops in ((tuple(al[i] for i in pre) + rest) for pre in first
                for rest in itertools.product(al, repeat=length - len(pre))):
        if not M.valid(ops):
            continue
        if time.time() > deadline:
            out["skipped"] += 1
            continue
        n += 1
        do_twin = n % 23 == 1
        try:
            recs, st, ts = check_history(S, init, ops, do_twin, cap_s)
        except Exception as e:  # noqa: BLE001 - harness problem on this history: reported, never a verdict
            if len(out["herr"]) < 3:
                out["herr"].append(f"{init} {ops}: {type(e).__name__}: {str(e)[:150]}")
            continue
        out["hist"] += 1
        out["solver_s"] += ts
        for k, v in st.items():
            out["stats"][k] += v
            if v:
                out["hist_with"][k] += 1
        cls = M.hist_cls(ops)
        sig = M.hist_sig(init, ops)
        c = out["classes"].setdefault(cls, {"ok": 0, "inconc": 0, "cand": 0})
        for rec in recs:
            for b, _t in rec.get("ext", []):
                out["ext"][b] = out["ext"].get(b, 0) + 1
            if rec["status"] == "ok":
                c["ok"] += 1
                if rec.get("nontrivial"):
                    out["sigs"][f"{cls}:{sig}"] = 1
                if "twin" in rec:
                    if rec["twin"] == "sat":
                        out["twin_ok"] += 1
                    else:
                        out["twin_bad"].append([init, ops, rec["var"], rec["twin"]])
                if out["sample"] is None and rec.get("nontrivial") and length > 1:
                    out["sample"] = {"init": init, "ops": [list(o) for o in ops], "var": rec["var"],
                                     "verdict": "all reads valid-equal to the flat reference (unsat)"}
            elif rec["status"] == "inconc":
                c["inconc"] += 1
                out["inconc"].append([cls, f"{sig}/{rec['var']}.{rec.get('label', '')}", rec.get("detail", "")])
            else:
                c["cand"] += 1
                out["ncand"] += 1
                if len(out["cands"]) < CAND_PER_UNIT:
                    rec = dict(rec)
                    rec.update(init=init, ops=[list(o) for o in ops], cls=cls)
                    out["cands"].append(rec)
    out["wall"] = time.time() - t0
    return out


# ---------------------------------------------------------------------------
# replay (parent process): re-run the real code, evaluate on the witness, compare with the int reference
# ---------------------------------------------------------------------------
def _eval(term, model: dict):
    consts = portfolio.free_consts([term])
    subs = []
    for c in consts:
        v = model.get(str(c), 0)
        if z3.is_bv(c):
            subs.append((c, z3.BitVecVal(int(v), c.size())))
        elif z3.is_bool(c):
            subs.append((c, z3.BoolVal(bool(v))))
    t = z3.simplify(z3.substitute(term, *subs)) if subs else z3.simplify(term)
    return t.as_long() if z3.is_bv_value(t) else None


def _byref(env, var) -> bool:
    """diagnosis only (names the key): does `var` hold the *other* vector object itself as a chunk?"""
    V = env[var]
    live = [x for x in env.values() if x is not None]
    if len(live) < 2 or V is None:
        return False
    try:
        stack, seen = list(V.chunks.values()), set()
        while stack:
            ch = stack.pop()
            if any(ch is x for x in live):
                return True
            if isinstance(ch, ByteVec) and id(ch) not in seen:  # by-reference storage can even create cycles
                seen.add(id(ch))
                stack.extend(ch.chunks.values())
    except Exception:
        pass
    return False


def _shared_container(env) -> bool:
    try:
        return env["A"] is not None and env["B"] is not None and env["A"].chunks is env["B"].chunks
    except Exception:
        return False


def replay(cand: dict) -> dict:
    init, ops, var = cand["init"], [tuple(o) for o in cand["ops"]], cand["var"]
    kind = cand["kind"]
    out = {"reproduced": False, "kind": kind}
    if kind == "hang":
        try:
            with watchdog():
                env, refs, _ = M.run_history(M.SymDom(), init, ops)
                for nm in ("A", "B"):
                    if env[nm] is not None:
                        M.observe(env[nm], refs[nm], M.Z8[0], nm)
            out["outcome"] = "returned on re-run"
        except Hang:
            out.update(reproduced=True, outcome="did not return within 15 s on re-run")
        except Exception as e:  # noqa: BLE001
            out["outcome"] = f"re-run raised {type(e).__name__}"
        return out
    if kind == "exception":
        try:
            M.run_history(M.SymDom(), init, ops)
            out["outcome"] = "no exception on re-run"
        except M.OpError as e:
            out.update(reproduced=type(e.exc).__name__ == cand["exc"], outcome=str(e)[:300])
        try:
            M.run_history(M.IntDom({}), init, ops)
            out["concrete_run_reproduces"] = False
        except M.OpError:
            out["concrete_run_reproduces"] = True
        return out
    try:
        env, refs, st = M.run_history(M.SymDom(), init, ops)
    except M.OpError as e:
        out["outcome"] = f"re-run raised {e}"
        return out
    out["diag"] = "byref" if _byref(env, var) else ("shared-chunks" if _shared_container(env) else "")
    out["value_use_aligned"] = st["value_use_aligned"]
    if kind == "read_exception":
        try:
            M.observe(env[var], refs[var], M.Z8[0], var)
            out["outcome"] = "no exception on re-run"
        except M.ReadError as e:
            out.update(reproduced=type(e.exc).__name__ == cand["exc"], outcome=str(e)[:300])
        return out
    if kind == "concrete":
        try:
            _, bad = M.observe(env[var], refs[var], M.Z8[0], var)
        except M.ReadError as e:
            out.update(reproduced=True, outcome=str(e)[:300])
            return out
        out.update(reproduced=bool(bad), outcome=str(bad[:2])[:300])
        return out
    # kind == "sat"
    model = cand["model"]
    pairs, bad = M.observe(env[var], refs[var], M.Z8[0], var, extra_pass=True)
    hit = [p for p in pairs if p[0] == cand["label"]]
    if not hit:
        out["outcome"] = "label not found on re-run"
        return out
    label, impl, ref, nb = hit[0]
    got_sym = _eval(impl, model)
    # reference on plain ints + the real code on fully concrete inputs
    cenv, crefs, _ = M.run_history(M.IntDom(model), init, ops)
    cpairs, cbad = M.observe(cenv[var], crefs[var], 0, var, extra_pass=True)
    chit = [p for p in cpairs if p[0] == label]
    if not chit:
        out["outcome"] = "label not found in the concrete run"
        return out
    want = _eval(chit[0][2], {})
    got_conc = _eval(chit[0][1], {})
    out.update(reproduced=(got_sym is not None and want is not None and got_sym != want),
               concrete_run_reproduces=(got_conc != want), nbytes=nb)
    if got_sym is not None and want is not None:
        g, w = got_sym.to_bytes(nb, "big"), want.to_bytes(nb, "big")
        diff = [i for i in range(nb) if g[i] != w[i]]
        out.update(got=g.hex(), want=w.hex(), first_diff_byte=diff[0] if diff else None, diff_bytes=len(diff))
        if diff:
            out["got_byte"], out["want_byte"] = g[diff[0]], w[diff[0]]
    return out


def violation_key(cand, rp) -> str:
    cls = cand["cls"]
    if rp.get("diag") == "byref":
        return ("value-stored-by-reference/" + ("aligned-set_slice" if rp.get("value_use_aligned") else "other")
                + f"/{cls}")
    last = M.op_sig(tuple(cand["ops"][-1])) if cand["ops"] else "init"
    read = cand.get("label", "").split(".", 1)[-1].split("(")[0].split("#")[0]
    if cand["kind"] in ("exception", "read_exception", "hang"):
        return f"{cls}/exception:{cand.get('exc')}/{last if cand['kind'] == 'exception' else read}"
    return f"{cls}/{last}/{read}"


# Genuine defects of the unchanged tree that were reported to the maintainer of known_findings.json.  Until the entry
# exists they are neither VIOLATION nor KNOWN-FINDING (BUILDER_BRIEF): they are listed as inconclusive + printed as
# REPORTED-FINDING.  With the entry present run.violation() turns them into KNOWN-FINDING.
# (the aligned-set_slice by-reference store was reported this way, then repaired in /repo -- see known_findings.json,
# status "fixed" -- so nothing is pending and any recurrence is a VIOLATION again)
REPORTED = {}


def report(run, cls, key, what, witness):
    pend = [k for k in REPORTED if key.startswith(k)]
    if pend and run.match_known(key) is None:
        run.extra.setdefault("reported_findings", {}).setdefault(pend[0], {"count": 0, "first": what,
                                                                            "witness": witness})["count"] += 1
        if run.extra["reported_findings"][pend[0]]["count"] == 1:
            print(f"REPORTED-FINDING (awaiting known_findings.json entry key={pend[0]}): {REPORTED[pend[0]]}",
                  flush=True)
            print(f"  e.g. {what[:300]}", flush=True)
        run.inconc(cls, key, "reported genuine finding, not yet in known_findings.json: " + what[:200])
        return
    run.violation(cls, key, what, witness)


# ---------------------------------------------------------------------------
# SEVM memory instructions (optional part; C01 family F3 covers the same ground with generated programs)
# ---------------------------------------------------------------------------
def sevm_programs(tier):
    """-> list of (name, items for lib.asm.assemble, reference closure)"""
    from lib.asm import assemble

    offs = [0, 1, 31, 32, 33] if tier == "quick" else [0, 1, 2, 31, 32, 33, 63, 64, 65]
    progs = []

    def P(v):
        return ("PUSH", v)

    for a in offs:
        for b in offs:
            # MSTORE(a, cd[0]); MSTORE8(b, cd[1]); MCOPY(b+1, a, 33); CALLDATACOPY(a+2, 3, 40); RETURN(0, 160)
            items = [P(0), "CALLDATALOAD", P(a), "MSTORE",
                     P(32), "CALLDATALOAD", P(b), "MSTORE8",
                     P(33), P(a), P(b + 1), "MCOPY",
                     P(40), P(3), P(a + 2), "CALLDATACOPY",
                     P(160), P(0), "RETURN"]

            def ref(cd, a=a, b=b):
                z = M.Z8[0]
                mem = []
                M.ref_write(mem, a, M.ref_read(cd, 0, 32, z), z)
                M.ref_write(mem, b, M.ref_read(cd, 63, 64, z), z)
                M.ref_write(mem, b + 1, M.ref_read(mem, a, a + 33, z), z)
                M.ref_write(mem, a + 2, M.ref_read(cd, 3, 43, z), z)
                return M.ref_read(mem, 0, 160, z)

            progs.append((f"a{a}b{b}", assemble(items), ref))
    return progs


def _sevm_one(idx):
    from lib import driver

    name, code, ref = _SEVM_PROGS[idx]
    words = [z3.BitVec(f"cd{i}", 256) for i in range(3)]
    cd_ref = []
    for w in words:
        cd_ref += [z3.Extract(255 - 8 * i, 248 - 8 * i, w) for i in range(32)]
    data = ByteVec()
    for w in words:
        data.append(w)
    sevm = driver.mk_sevm()
    this = z3.BitVec("this_address", 160)
    w = driver.World(code={this: code}, target=this, caller=z3.BitVec("msg_sender", 160),
                     origin=z3.BitVec("tx_origin", 160), value=z3.BitVecVal(0, 256), data=data)
    try:
        recs = driver.run(sevm, driver.mk_exec(sevm, w))
        got = driver.bytevec_bytes(recs[0].data) if len(recs) == 1 and recs[0].data is not None else None
    except Exception as e:  # noqa: BLE001 - the program and its inputs are fixed: the exception comes from the engine
        return name, "cand", f"the real SEVM raised {type(e).__name__}: {str(e)[:120]} (deterministic re-run = replay)", None
    if len(recs) != 1 or recs[0].error is not None or recs[0].data is None:
        return name, "inconc", f"unexpected paths={len(recs)} error={recs[0].error if recs else None}", None
    want = ref(cd_ref)
    if len(got) != len(want):
        return name, "cand", f"return data length {len(got)} != {len(want)}", None
    res = portfolio.solve([M.cat(got) != M.cat(want)], timeout=20)
    if res.status == "unsat":
        return name, "ok", "", None
    if res.status == "sat":
        g, wv = _eval(M.cat(got), res.model), _eval(M.cat(want), res.model)
        return name, "cand" if g != wv else "inconc", f"model {res.model}: got {g:#x} want {wv:#x}", res.model
    return name, "inconc", f"solver {res.status}", None


_SEVM_PROGS: list = []


# ---------------------------------------------------------------------------
def main(run: common.Run):
    tier = run.tier
    only = set(run.args.only.split(",")) if run.args.only else None
    jobs = max(2, min(run.args.jobs, (os.cpu_count() or 4)))
    cap_s = 20 if tier == "quick" else 120
    want_z = not only or "Z" in only
    want_p = not only or "P" in only
    want_s = not only or "S" in only
    if run.args.replay:
        w = json.load(open(run.args.replay))["witness"]
        rp = replay(w) if "ops" in w else {"reproduced": None, "outcome": "Route P witness: re-run the listed call"}
        print(json.dumps({"witness": w, "replay": rp}, indent=1, default=str))
        sys.exit(1 if rp.get("reproduced") else 0)

    blocks = BLOCKS[tier]
    run.functions_encoded = ["halmos.bytevec.ByteVec.append", "ByteVec.set_byte", "ByteVec.set_word",
                             "ByteVec.set_slice", "ByteVec.slice", "ByteVec.get_byte", "ByteVec.get_word",
                             "ByteVec.__getitem__", "ByteVec.__setitem__ (byte index, route P)", "ByteVec.unwrap",
                             "ByteVec.copy", "ByteVec.__len__",
                             "halmos.bytevec.Chunk.wrap/ConcreteChunk/SymbolicChunk (slice, get_byte, unwrap)",
                             "halmos.sevm.State.__deepcopy__",
                             "halmos.sevm.SEVM.run: MSTORE, MSTORE8, MCOPY, CALLDATACOPY, RETURN "
                             "(State.mslice/set_mslice/ret)"]
    run.assumptions = ["offsets and lengths are concrete Python ints (as in halmos); histories are enumerated over "
                       "the stated alphabets; content is fully symbolic inside each history",
                       "route P: ByteVecs hold only concrete chunks (CrossHair runs halmos under z3 5.1, so no z3 "
                       "call may be on the path); every counterexample is replayed under /venv/bin/python"]
    tmpdir = tempfile.mkdtemp(prefix="c07_")
    os.environ["VERIF_TMP"] = tmpdir
    try:
        _main(run, tier, blocks, jobs, cap_s, tmpdir, want_z, want_p, want_s)
    finally:
        shutil.rmtree(tmpdir, ignore_errors=True)


def _main(run, tier, blocks, jobs, cap_s, tmpdir, want_z, want_p, want_s):
    import multiprocessing as mp

    global _SEVM_PROGS

    t_start = time.time()
    # ---- route P in the background (CPU-time capped subprocesses) ---------------------------------------
    prun = None
    p_cap = 75 if tier == "quick" else 300
    if want_p:
        prun = chx07.Runner(tier, tmpdir, common.REPO_SRC, p_cap, jobs=max(2, jobs // 2 + 1) if want_z else jobs,
                            deadline=t_start + (185 if tier == "quick" else 24 * 60),
                            hard_stop=t_start + (228 if tier == "quick" else 29 * 60))
        if not prun.available():
            rc = os.system(f"cd {common.VERIF} && ./setup.sh >/dev/null 2>&1")
            if not prun.available():
                run.harness_error(f"CrossHair overlay venv missing and ./setup.sh failed (rc={rc})")
                prun = None
        if prun:
            prun.start()

    # ---- route Z -----------------------------------------------------------------------------------------
    hist_with = {k: 0 for k in M.new_stats()}
    totals = {"histories": 0, "skipped": 0, "twin_ok": 0, "cands": 0}
    cands: list = []
    block_rows = []
    sevm_res: list = []
    if want_z:
        deadline = t_start + Z_BUDGET_S[tier]
        units, uid = [], 0
        for level, length, inits in blocks:
            al = alph(level)
            plen = 1 if length <= 3 else length - 2  # prefix length handled by one unit
            pres = [pre for pre in itertools.product(range(len(al)), repeat=plen)
                    if M.valid(tuple(al[i] for i in pre))]
            per_pre = len(al) ** (length - plen)
            group = max(1, 160 // per_pre)
            for init in inits:
                for g in range(0, len(pres), group):
                    units.append((uid, init, level, length, tuple(pres[g:g + group]), cap_s, deadline))
                    uid += 1
        # short histories first: under time pressure the minimal counterexamples are found first
        # interleave the blocks proportionally to the work done (so that a time budget cut degrades all blocks evenly);
        # ties: short histories first (minimal counterexamples are found first)
        by_block: dict = {}
        for u in units:
            by_block.setdefault((u[2], u[3]), []).append(u)
        order = []
        for blk in by_block.values():
            for k, u in enumerate(blk):
                order.append(((k + 1) / len(blk), u[3], u[0], u))
        order.sort(key=lambda t: t[:3])
        units = [t[3] for t in order]
        if want_s:
            _SEVM_PROGS = sevm_programs(tier)
            units = [("sevm", i) for i in range(len(_SEVM_PROGS))] + units
        per_block: dict = {}
        sample_per: dict = {}
        ctx = mp.get_context("fork")
        zjobs = max(2, jobs - (5 if prun else 0))
        with ctx.Pool(processes=zjobs) as pool:
            for r in pool.imap_unordered(_unit, units, chunksize=1):
                if "sevm" in r:
                    sevm_res.append(r["sevm"])
                    continue
                b = per_block.setdefault((r["level"], r["length"]), {"histories": 0, "skipped": 0, "wall": 0.0})
                b["histories"] += r["hist"]
                b["skipped"] += r["skipped"]
                b["wall"] += r["wall"]
                totals["histories"] += r["hist"]
                totals["skipped"] += r["skipped"]
                totals["twin_ok"] += r["twin_ok"]
                totals["cands"] += r["ncand"]
                run.solver_time += r["solver_s"]
                for k, v in r["hist_with"].items():
                    hist_with[k] += v
                for cls, c in r["classes"].items():
                    cc = run.cls(cls)
                    cc["obligations"] += c["ok"]
                    cc["discharged"] += c["ok"]
                    run.obligations += c["ok"]
                    run.discharged += c["ok"]
                    run.evaluations += c["ok"]
                run.backend_wins["z3"] = run.backend_wins.get("z3", 0) + sum(c["ok"] for c in r["classes"].values())
                for b_, n_ in r["ext"].items():
                    run.backend_wins[b_] = run.backend_wins.get(b_, 0) + n_
                run.distinct.update(r["sigs"].keys())
                for cls, key, why in r["inconc"]:
                    run.inconc(cls, key, why)
                for he in r["herr"]:
                    run.harness_error("harness exception in a worker: " + he)
                for tb in r["twin_bad"]:
                    run.harness_error(f"sensitivity twin not sat (comparison may be vacuous): {tb}")
                if r["sample"] and sample_per.get((r["level"], r["length"]), 0) < 2:
                    sample_per[(r["level"], r["length"])] = sample_per.get((r["level"], r["length"]), 0) + 1
                    run.sample(r["sample"], limit=12)
                if r["skipped"]:
                    fst = f"{list(r['first'][0])}..{list(r['first'][-1])}"
                    run.inconc("Z.budget", f"{r['init']}:{r['level']}^{r['length']}:first={fst}",
                               f"{r['skipped']} histories not run (time budget)")
                cands.extend(r["cands"])
        for (level, length), b in sorted(per_block.items()):
            block_rows.append({"alphabet": level, "alphabet_size": len(alph(level)), "length": length, **b,
                               "wall": round(b["wall"], 1)})
        if prun:
            prun.more_slots(zjobs)
        print(f"  route Z: {totals['histories']} histories in {time.time() - t_start:.0f}s "
              f"({totals['skipped']} skipped, {totals['cands']} candidates)", flush=True)

        # ---- candidates -> replay -> violations (shortest history per key first) ---------------------------
        cands.sort(key=lambda c: (len(c["ops"]), json.dumps(c["ops"])))
        seen_keys: dict = {}
        pre_seen: dict = {}
        not_repro = 0
        replays = 0
        for c in cands:
            # candidates are replayed shortest-first, at most 3 per (class, last operation, read, kind) and 80 overall
            pre = (c["cls"], M.op_sig(tuple(c["ops"][-1])) if c["ops"] else "", c.get("label", "").split("(")[0],
                   c["kind"])
            if pre_seen.get(pre, 0) >= 3 or replays >= 80 or len(seen_keys) >= 12:
                continue
            pre_seen[pre] = pre_seen.get(pre, 0) + 1
            replays += 1
            try:
                if c["kind"] == "hang":
                    rp = replay(c)  # has its own watchdog
                else:
                    with watchdog(40):
                        rp = replay(c)
            except Hang:
                if c["kind"] == "hang":
                    rp = {"reproduced": True, "kind": "hang", "outcome": "did not return on re-run"}
                else:
                    run.inconc(c["cls"], f"{M.hist_sig(c['init'], [tuple(o) for o in c['ops']])}",
                               "replay of the candidate did not return within 40 s")
                    continue
            except Exception as e:  # noqa: BLE001
                run.harness_error(f"replay crashed on {c['init']} {c['ops']}: {type(e).__name__}: {e}")
                continue
            key = violation_key(c, rp)
            if not rp.get("reproduced"):
                not_repro += 1
                if not_repro <= 5:
                    run.inconc(c["cls"], key, f"candidate did not replay: {rp.get('outcome', rp)}")
                continue
            if key in seen_keys:
                seen_keys[key] += 1
                continue
            seen_keys[key] = 1
            what = (f"{c.get('label', '')} after init={c['init']} ops={c['ops']}: "
                    + (f"byte {rp.get('first_diff_byte')} of the read is {rp.get('got_byte')} but the flat model says "
                       f"{rp.get('want_byte')} ({rp.get('diff_bytes')} bytes differ) for content {c.get('model')}"
                       if c["kind"] == "sat" else c.get("detail", rp.get("outcome", ""))))
            report(run, c["cls"], key, what[:600],
                          {"init": c["init"], "ops": c["ops"], "var": c["var"], "kind": c["kind"],
                           "label": c.get("label"), "model": c.get("model"), "exc": c.get("exc"), "cls": c["cls"],
                           "replay": rp, "how": "./check C07 --replay <this file>"})
        run.extra["candidates"] = {"total": totals["cands"], "replayed": replays, "keys": seen_keys,
                                   "not_reproduced": not_repro}

    # ---- SEVM memory instructions --------------------------------------------------------------------------
    if want_s:
        if not want_z:
            _SEVM_PROGS = sevm_programs(tier)
            sevm_res = common.parallel_map(_sevm_one, list(range(len(_SEVM_PROGS))), max(2, jobs // 2))
        nsev = 0
        for r in sevm_res:
            if r and r[0] == "error":
                run.harness_error("sevm program crashed: " + r[1].strip().splitlines()[-1][:200])
                continue
            name, status, why, model = r
            if status == "ok":
                run.ok("Z.sevm", name)
                nsev += 1
            elif status == "inconc":
                run.inconc("Z.sevm", name, why)
            else:
                # replay: run the program again in this process; for a sat answer _sevm_one evaluates the engine's
                # output term and the reference on the witness and reports a candidate only if the values differ
                idx = [i for i, p in enumerate(_SEVM_PROGS) if p[0] == name][0]
                try:
                    again = _sevm_one(idx)
                except Exception as e:  # noqa: BLE001
                    again = (name, "inconc", f"re-run crashed: {type(e).__name__}", None)
                if again[1] == "cand":
                    kind = "exception" if "raised" in why else "wrong-return-data"
                    run.violation("Z.sevm", f"Z.sevm/{kind}", f"program {name} (MSTORE a; MSTORE8 b; MCOPY b+1,a,33; "
                                  f"CALLDATACOPY a+2,3,40; RETURN 0,160): {why}"[:500],
                                  {"program": name, "model": model, "bytecode": _SEVM_PROGS[idx][1].hex()})
                else:
                    run.inconc("Z.sevm", name, f"candidate did not reproduce on re-run: {why[:150]}")
        run.extra["sevm_programs"] = len(_SEVM_PROGS)
        if nsev == 0:
            run.harness_error("vacuity: no SEVM memory program was decided")

    # ---- route P results ---------------------------------------------------------------------------------
    p_rows = []
    if prun:
        tw_ok = tw_run = 0
        for c, r in prun.results():
            row = {"name": c["name"], "status": r["status"], "wall": round(r["wall"], 1),
                   "ranges": {n: [lo, hi] for n, lo, hi in c["ints"]}}
            p_rows.append(row)
            if c["post"] == "False":  # reachability twin
                starved = "not run" in r["msg"] or "wall-clock timeout" in r["msg"]
                tw_run += 0 if starved else 1
                if r["status"] == "counterexample":
                    tw_ok += 1
                elif starved:
                    run.inconc("P.twin", c["name"], r["msg"])
                else:
                    run.harness_error(f"route P twin {c['name']} was not refuted ({r['status']}: {r['msg'][:120]})")
                continue
            if r["status"] == "confirmed":
                run.ok(c["cls"], c["name"])
            elif r["status"] == "counterexample":
                rp = r.get("replay", {})
                row["replay"] = rp
                if rp.get("reproduced"):
                    key = f"{c['cls']}/{c['name'].split('.a')[0].split('.s')[0].split('.d')[0]}"
                    if c["cls"] == "P.value_copy":
                        argv = [int(x) for x in r["call"].split("(", 1)[1].rstrip(")").split(",")]
                        aligned = c["name"].startswith("C.value_write_source") and argv[-2] == 0
                        key = ("value-stored-by-reference/" + ("aligned-set_slice" if aligned else "other")
                               + f"/{c['cls']}")
                    report(run, c["cls"], key, f"CrossHair counterexample {r['call']} -> {rp['outcome']}"[:500],
                                  {"call": r["call"], "condition": c["name"], "body": c["body"],
                                   "ranges": row["ranges"], "replay": rp})
                else:
                    run.inconc(c["cls"], c["name"], f"counterexample did not replay under /venv: {rp} {r['msg'][:150]}")
            else:
                run.inconc(c["cls"], c["name"], f"CrossHair: {r['msg'][:160]}")
        run.extra["route_p"] = {"conditions": p_rows, "twins_refuted": tw_ok, "cap_cpu_s": p_cap}
        if tw_ok == 0 and tw_run > 0:
            run.harness_error("vacuity: no route P reachability twin was refuted")

    # ---- vacuity + evidence ------------------------------------------------------------------------------
    if want_z:
        vac = {"histories": totals["histories"],
               "with_symbolic_chunk": hist_with["sym"],
               "with_overlapping_self_copy": hist_with["overlap"],
               "with_chunk_boundary_aligned_write": hist_with["aligned"],
               "with_write_splitting_symbolic_chunk": hist_with["split_sym"],
               "with_nested_bytevec_chunk": hist_with["nested"],
               "with_write_after_fork": hist_with["write_after_fork"],
               "with_write_after_value_use": hist_with["write_after_value_use"],
               "sensitivity_twins_sat": totals["twin_ok"]}
        run.extra["vacuity"] = vac
        run.extra["blocks"] = block_rows
        for k in ("with_symbolic_chunk", "with_overlapping_self_copy", "with_chunk_boundary_aligned_write",
                  "with_write_splitting_symbolic_chunk", "with_write_after_fork",
                  "sensitivity_twins_sat"):
            # (nested ByteVec chunks no longer arise since /repo's set_slice stores the chunks of a ByteVec value on the
            #  aligned path too; the counter is reported but no longer mandatory)
            if vac[k] == 0:
                run.harness_error(f"vacuity: {k} = 0")
        print("  vacuity: " + ", ".join(f"{k}={v}" for k, v in vac.items()), flush=True)
    run.bounds = {
        "route_Z": {"blocks": [{"alphabet": lv, "ops": len(alph(lv)), "length": ln, "inits": list(ini)}
                               for lv, ln, ini in blocks],
                    "initial_vectors": {"E": "empty", "W3": "[sym32|conc32|sym32]", "M": "[conc2|sym3|conc27|sym32]",
                                        "N": "W3 with a nested mixed ByteVec stored by the aligned fast path"},
                    "offset_grid": "0,1,2,5,31..34,63..65,95..97,128,129 (full); subsets for longer histories",
                    "content": "fresh z3 constants of 8/24/256 bits (z3 term, HalmosBitVec, Bool) mixed with "
                               "concrete bytes / ints / numerals",
                    "reads": "len, get_byte/[] for all i<=len+2, get_word at 11 offsets, 13 slices (+unwrap, "
                             "byte-wise re-read), whole unwrap; per vector",
                    "solver_cap_s": cap_s, "time_budget_s": Z_BUDGET_S[tier]},
        "route_P": {"chunk_shape": list(chx07.SHAPE), "max_offset": 40, "data_len": "<=3 (word 32)",
                    "ops_per_history": "<=2 writes (+ copy / value use)", "cpu_cap_s": p_cap},
        "sevm": "5x5 (quick) / 9x9 (thorough) offset pairs, one straight-line program each",
        "outside": "offsets > 129 (route Z) / > 40 (route P); symbolic offsets (halmos requires concrete ones); "
                   "histories longer than the stated lengths; ByteVec.__setitem__ with a slice key; "
                   "Chunk.concretize; ByteVec.__eq__",
    }
    run.extra["rule"] = ("route Z: one obligation = one (history, vector) pair: ~30 solver queries 'read != reference' "
                         "all unsat; distinct = distinct (class, initial vector, operation-kind signature) whose query "
                         "mentioned a symbolic constant.  route P: one obligation = one CrossHair condition "
                         "confirmed over all paths")


if __name__ == "__main__":
    common.guarded_main("C07", "proof", main)
