"""C14 — prank, state-setting cheatcodes and fresh symbols behave as specified (DESIGN §1 C14).

(1) prank histories: all sequences of length <= 3 (thorough 4) over {prank(a), prank(a,o), startPrank(a), startPrank(a,o),
    stopPrank, CALL observer, STATICCALL observer, CREATE child, a cheatcode call, a nested frame that itself pranks,
    a nested frame that only observes} with symbolic addresses, executed by the real SEVM and by the reference EVM with
    the Foundry cheatcode specification (lib/foundry_spec.py); observers return CALLER and ORIGIN; O1/O2 by the solver
    portfolio for all address values.  Sequences Foundry rejects (prank while a prank is active) are outside.
(2) state cheatcodes with symbolic arguments: the subsequent BALANCE/SLOAD/TIMESTAMP/NUMBER/BASEFEE/CHAINID/COINBASE/
    PREVRANDAO/EXTCODESIZE read returns exactly the supplied value; a second (symbolic or concrete) account is unchanged.
(3) svm.create* / vm.random*: the returned word has the requested width/encoding/range (validity query on the path
    condition) and consecutive values are independent (two satisfiability queries with swapped extreme targets).
"""

from __future__ import annotations

import itertools
import os
import sys

sys.path.insert(0, os.path.dirname(os.path.dirname(os.path.abspath(__file__))))

import z3  # noqa: E402

from lib import asm, common, e2e, exact, families, gen, portfolio, progcheck, progs  # noqa: E402

OBS, NEST, NESTP = 0x0B5E, 0x4E57, 0x4E58
cd0, cd1, cd2 = [("PUSH", 4), "CALLDATALOAD"], [("PUSH", 36), "CALLDATALOAD"], [("PUSH", 68), "CALLDATALOAD"]


def observer():
    return ["CALLER", "PUSH0", "MSTORE", "ORIGIN", ("PUSH", 32), "MSTORE", ("PUSH", 64), "PUSH0", "RETURN"]


def nested(prank_first: bool):
    """calls the observer (optionally after vm.prank(cd2-derived constant)) and forwards what it saw"""
    it = []
    if prank_first:
        it += e2e.call_cheat("prank(address)", [[("PUSH", 0x7777)]]) + ["POP"]
    it += gen.call_site("CALL", OBS, [("PUSH", 0)], 0, 0, 0x100, 64) + ["POP", ("PUSH", 64), ("PUSH", 0x100), "RETURN"]
    return it


def step_items(kind, k):
    out = 0x400 + 64 * k
    if kind == "prank":
        return e2e.call_cheat("prank(address)", [cd0]) + ["POP"]
    if kind == "prank2":
        return e2e.call_cheat("prank(address,address)", [cd0, cd1]) + ["POP"]
    if kind == "startPrank":
        return e2e.call_cheat("startPrank(address)", [cd0]) + ["POP"]
    if kind == "startPrank2":
        return e2e.call_cheat("startPrank(address,address)", [cd0, cd1]) + ["POP"]
    if kind == "stopPrank":
        return e2e.call_cheat("stopPrank()", []) + ["POP"]
    if kind == "call":
        return gen.call_site("CALL", OBS, [("PUSH", 0)], 0, 0, out, 64) + ["POP"]
    if kind == "staticcall":
        return gen.call_site("STATICCALL", OBS, [], 0, 0, out, 64) + ["POP"]
    if kind == "nested":
        return gen.call_site("CALL", NEST, [("PUSH", 0)], 0, 0, out, 64) + ["POP"]
    if kind == "nested-pranks":
        return gen.call_site("CALL", NESTP, [("PUSH", 0)], 0, 0, out, 64) + ["POP"]
    if kind == "branch":
        # a symbolic fork whose arms both continue (prank state must be per path)
        return cd2 + [("PUSH", 1 << k), "AND", ("PUSHL", f"br{k}"), "JUMPI", ("PUSH", 1), "POP", ("LABEL", f"br{k}")]
    if kind == "branch-stop":
        # one arm stops the prank, the other does not
        return cd2 + [("PUSH", 1 << k), "AND", ("PUSHL", f"bs{k}"), "JUMPI"] + e2e.call_cheat("stopPrank()", []) + ["POP", ("LABEL", f"bs{k}")]
    if kind == "precompile":
        # a call to the identity precompile is a call made by the pranking frame: it consumes a one-shot prank
        return [("PUSH", 32), ("PUSH", 0x700), ("PUSH", 32), ("PUSH", 0x100), ("PUSH", 4), "GAS", "STATICCALL", "POP"]
    if kind == "cheat":
        return e2e.call_cheat("warp(uint256)", [[("PUSH", 99)]]) + ["POP", "TIMESTAMP", ("PUSH", out), "MSTORE"]
    if kind == "prankc":
        return e2e.call_cheat("prank(address)", [[("PUSH", 0xA11CE, 20)]]) + ["POP"]
    if kind == "prankb":
        return e2e.call_cheat("prank(address)", [[("PUSH", 0xB0B, 20)]]) + ["POP"]
    if kind == "startPrankc":
        return e2e.call_cheat("startPrank(address)", [[("PUSH", 0xA11CE, 20)]]) + ["POP"]
    if kind in ("create2", "create2b"):
        # CREATE2 with a concrete salt: the new address (word 0 of the window) and the child's view of its creator (word 1)
        salt = 7 if kind == "create2" else 8
        return [("PUSHSIZE", "ci", "ce"), ("PUSHM", "ci"), ("PUSH", 0x300), "CODECOPY", ("PUSH", salt), ("PUSHSIZE", "ci", "ce"), ("PUSH", 0x300),
                ("PUSH", 0), "CREATE2", "DUP1", ("PUSH", out), "MSTORE",
                ("PUSH", 64), ("PUSH", 0x7C0), ("PUSH", 0), ("PUSH", 0), ("PUSH", 0), "DUP6", "GAS", "CALL", "POP", "POP",
                ("PUSH", 0x7C0), "MLOAD", ("PUSH", out + 32), "MSTORE"]
    if kind == "create":
        # child constructor stores CALLER and ORIGIN in its runtime code's return data: runtime returns (creator, origin)
        return [("PUSHSIZE", "ci", "ce"), ("PUSHM", "ci"), ("PUSH", 0x300), "CODECOPY", ("PUSHSIZE", "ci", "ce"), ("PUSH", 0x300),
                ("PUSH", 0), "CREATE"] + [("PUSH", 64), ("PUSH", out), ("PUSH", 0), ("PUSH", 0), ("PUSH", 0), "DUP6", "GAS", "CALL", "POP", "POP"]
    raise ValueError(kind)


def child_init():
    # constructor: record CALLER / ORIGIN into storage; runtime: return them
    rt = asm.assemble(["PUSH0", "SLOAD", "PUSH0", "MSTORE", ("PUSH", 1), "SLOAD", ("PUSH", 32), "MSTORE", ("PUSH", 64), "PUSH0", "RETURN"])
    return asm.creation_code(rt, ["CALLER", "PUSH0", "SSTORE", "ORIGIN", ("PUSH", 1), "SSTORE"])


KINDS = ["prank", "prank2", "startPrank", "startPrank2", "stopPrank", "call", "staticcall", "nested", "nested-pranks", "cheat", "create",
         "branch", "precompile"]
PRANKS = {"prank", "prank2", "startPrank", "startPrank2"}


def admissible(hist):
    """drop histories Foundry rejects (a prank while one is active) and ones without any observation"""
    active = None
    for k in hist:
        if k in PRANKS:
            if active:
                return False
            active = "start" if k.startswith("start") else "once"
        elif k == "stopPrank":
            active = None
        elif k in ("call", "staticcall", "nested", "nested-pranks", "create", "precompile") and active == "once":
            active = None
    # (every program ends with one more observed CALL, so a history needs no observation of its own)
    return any(k in ("call", "staticcall", "nested", "nested-pranks", "create") for k in hist) or bool(set(hist) & PRANKS)


def prank_programs(maxlen):
    out = []
    init = child_init()
    for n in range(1, maxlen + 1):
        for hist in itertools.product(KINDS, repeat=n):
            if not admissible(hist):
                continue
            if n == maxlen and maxlen >= 3 and not (set(hist) & PRANKS):
                continue
            items = []
            for k, kind in enumerate(hist):
                items += step_items(kind, k)
            # a final observation after the history (is the prank still active? it must be for startPrank only)
            items += gen.call_site("CALL", OBS, [("PUSH", 0)], 0, 0, 0x400 + 64 * n, 64) + ["POP"]
            items += [("PUSH", 64 * (n + 1)), ("PUSH", 0x400), "RETURN", ("MARK", "ci"), init, ("MARK", "ce")]
            p = families._mk_multi("prank#" + ">".join(hist), items, {OBS: observer(), NEST: nested(False), NESTP: nested(True)},
                                   features=hist, ncd=3, balances=())
            p.cheats, p.callvalue_zero = True, True
            p.vtag = "+".join(sorted(set(hist) & (PRANKS | {"stopPrank"}))) + "|" + "+".join(sorted(set(hist) - PRANKS - {"stopPrank"}))
            out.append(p)
    # forks around pranks: explicit histories of length 3-4 (both exploration orders arise from the two JUMPI arms)
    for hist in [("prank", "branch", "call"), ("branch", "prank", "call"), ("startPrank", "branch", "call", "call"),
                 ("startPrank", "branch-stop", "call"), ("prank2", "branch", "nested"), ("startPrank2", "branch", "create"),
                 ("branch", "startPrank", "call", "stopPrank"), ("prank", "branch", "cheat", "call"),
                 # CREATE2 made by a pranking frame: the deployer in the address formula is the pranked sender
                 ("create2",), ("prankc", "create2"), ("startPrankc", "create2", "create2b"), ("prankc", "create2", "create2b"),
                 ("prankc", "call", "create2"), ("prankc", "create2", "prankb", "create2"), ("create2", "create2"),
                 ("prankc", "create2", "create2"), ("create2", "prankc", "create2")]:
        items = []
        for k, kind in enumerate(hist):
            items += step_items(kind, k)
        n = len(hist)
        items += gen.call_site("CALL", OBS, [("PUSH", 0)], 0, 0, 0x400 + 64 * n, 64) + ["POP"]
        items += [("PUSH", 64 * (n + 1)), ("PUSH", 0x400), "RETURN", ("MARK", "ci"), init, ("MARK", "ce")]
        p = families._mk_multi("prank#" + ">".join(hist), items, {OBS: observer(), NEST: nested(False), NESTP: nested(True)},
                               features=hist, ncd=3, balances=())
        p.cheats, p.callvalue_zero, p.vtag = True, True, "fork:" + ">".join(hist)
        out.append(p)
    return out


def state_programs():
    out = []
    A, B = 0xA11CE, 0xB0B
    other = cd1 + [("PUSH", (1 << 160) - 1), "AND"]

    def sp(name, items, nwords, contracts=None):
        p = families._mk_multi(f"state#{name}", items + [("PUSH", 32 * nwords), ("PUSH", 0x400), "RETURN"], contracts or {},
                               features=(name,), ncd=3, balances=("this", 0xA11CE) if "value" in name else ("this",))
        p.cheats, p.callvalue_zero, p.vtag = True, True, name
        out.append(p)

    def o(k):
        return [("PUSH", 0x400 + 32 * k), "MSTORE"]

    for nm, sig, read in (("warp", "warp(uint256)", "TIMESTAMP"), ("roll", "roll(uint256)", "NUMBER"), ("fee", "fee(uint256)", "BASEFEE"),
                          ("chainId", "chainId(uint256)", "CHAINID"), ("difficulty", "difficulty(uint256)", "PREVRANDAO")):
        arg = cd0 if nm != "chainId" else cd0 + [("PUSH", (1 << 64) - 1), "AND"]
        sp(nm, [read] + o(0) + e2e.call_cheat(sig, [arg]) + ["POP", read] + o(1) + ["TIMESTAMP", "NUMBER", "ADD", "BASEFEE", "ADD", "CHAINID",
                                                                                   "ADD", "PREVRANDAO", "ADD"] + o(2), 3)
    sp("coinbase", e2e.call_cheat("coinbase(address)", [cd0]) + ["POP", "COINBASE"] + o(0), 1)
    # deal: targeted account only (concrete, symbolic and possibly-aliasing other account)
    sp("deal-concrete", e2e.call_cheat("deal(address,uint256)", [[("PUSH", A, 20)], cd0]) + ["POP", ("PUSH", A, 20), "BALANCE"] + o(0) + [
        ("PUSH", B, 20), "BALANCE"] + o(1) + ["SELFBALANCE"] + o(2), 3)
    sp("deal-symbolic", e2e.call_cheat("deal(address,uint256)", [cd2, cd0]) + ["POP"] + cd2 + ["BALANCE"] + o(0) + other + ["BALANCE"] + o(1) + [
        "SELFBALANCE"] + o(2), 3)
    sp("deal-twice", e2e.call_cheat("deal(address,uint256)", [[("PUSH", A, 20)], cd0]) + ["POP"] + e2e.call_cheat(
        "deal(address,uint256)", [[("PUSH", B, 20)], cd1]) + ["POP", ("PUSH", A, 20), "BALANCE"] + o(0) + [("PUSH", B, 20), "BALANCE"] + o(1), 2)
    # store / load on another contract and on self; other slots and accounts untouched
    target = ["PUSH0", "SLOAD", "PUSH0", "MSTORE", ("PUSH", 1), "SLOAD", ("PUSH", 32), "MSTORE", ("PUSH", 64), "PUSH0", "RETURN"]
    sp("store-load", e2e.call_cheat("store(address,bytes32,bytes32)", [[("PUSH", OBS, 20)], [("PUSH", 0)], cd0]) + ["POP"] + e2e.call_cheat(
        "load(address,bytes32)", [[("PUSH", OBS, 20)], [("PUSH", 0)]], ret_words=1) + ["POP", ("PUSH", 0x80), "MLOAD"] + o(0) + e2e.call_cheat(
        "load(address,bytes32)", [[("PUSH", OBS, 20)], [("PUSH", 1)]], ret_words=1) + ["POP", ("PUSH", 0x80), "MLOAD"] + o(1) + gen.call_site(
        "CALL", OBS, [("PUSH", 0)], 0, 0, 0x440, 64) + ["POP", "PUSH0", "SLOAD"] + o(4), 5, {OBS: target})
    sp("store-sym-slot", e2e.call_cheat("store(address,bytes32,bytes32)", [[("PUSH", OBS, 20)], cd1, cd0]) + ["POP"] + e2e.call_cheat(
        "load(address,bytes32)", [[("PUSH", OBS, 20)], cd2], ret_words=1) + ["POP", ("PUSH", 0x80), "MLOAD"] + o(0), 1, {OBS: target})
    # value-bearing call under a prank: the pranked account pays (or the call fails for lack of ITS funds)
    sp("prank-call-value", e2e.call_cheat("prank(address)", [[("PUSH", A, 20)]]) + ["POP"] + gen.call_site(
        "CALL", OBS, [("PUSH", 1)], 0, 0, 0x500, 64) + o(0) + [("PUSH", 0x500), "MLOAD"] + o(1) + [("PUSH", A, 20), "BALANCE"] + o(2) + [
        "SELFBALANCE"] + o(3) + [("PUSH", OBS, 20), "BALANCE"] + o(4), 5, {OBS: observer()})
    # etch: code replaced, storage of the account (and of others) untouched
    newcode = asm.assemble(["PUSH0", "SLOAD", ("PUSH", 7), "ADD", "PUSH0", "MSTORE", ("PUSH", 32), "PUSH0", "RETURN"])
    blob = e2e.selector("etch(address,bytes)") + OBS.to_bytes(32, "big") + (64).to_bytes(32, "big") + enc_string(newcode)
    sp("store-etch-load", e2e.call_cheat("store(address,bytes32,bytes32)", [[("PUSH", OBS, 20)], [("PUSH", 0)], cd0]) + ["POP"]
       + raw_cheat(e2e.HEVM, blob, 0, 0) + e2e.call_cheat("load(address,bytes32)", [[("PUSH", OBS, 20)], [("PUSH", 0)]], ret_words=1) + [
           "POP", ("PUSH", 0x80), "MLOAD"] + o(0) + gen.call_site("CALL", OBS, [("PUSH", 0)], 0, 0, 0x420, 32) + ["POP"] + [
           ("PUSH", OBS, 20), "EXTCODESIZE"] + o(2), 3, {OBS: target})
    sp("store-self", [("PUSH", 5), "PUSH0", "SSTORE"] + e2e.call_cheat("store(address,bytes32,bytes32)", [["ADDRESS"], [("PUSH", 1)], cd0]) + [
        "POP", "PUSH0", "SLOAD"] + o(0) + [("PUSH", 1), "SLOAD"] + o(1), 2)
    return out


# ---------------------------------------------------------------------------------------------------------------------
def enc_string(s: bytes):
    pad = (32 - len(s) % 32) % 32
    return len(s).to_bytes(32, "big") + s + b"\0" * pad


def raw_cheat(target, calldata: bytes, ret_off, ret_size):
    """call `target` with a concrete calldata blob placed in memory at 0x800"""
    items = []
    for k in range(0, len(calldata), 32):
        chunk = calldata[k:k + 32].ljust(32, b"\0")
        items += [("PUSH", int.from_bytes(chunk, "big"), 32), ("PUSH", 0x800 + k), "MSTORE"]
    items += [("PUSH", ret_size), ("PUSH", ret_off), ("PUSH", len(calldata)), ("PUSH", 0x800), "PUSH0", ("PUSH", target, 20), "GAS", "CALL", "POP"]
    return items


def fresh_cases(tier):
    """(name, [call blobs], words per call, spec(values) -> (range formulas, extreme targets))"""
    sel = e2e.selector
    M = (1 << 256) - 1
    cases = []
    widths = [1, 8, 9, 64, 128, 160, 255, 256] if tier == "quick" else list(range(1, 257))
    for n in widths:
        cases.append((f"createUint({n})", e2e.SVM, sel("createUint(uint256,string)") + n.to_bytes(32, "big") + (64).to_bytes(32, "big") + enc_string(b"x"),
                      ("uint", n)))
    for n in ([1, 8, 128, 255, 256] if tier == "quick" else [1, 2, 7, 8, 9, 31, 32, 64, 127, 128, 129, 255, 256]):
        cases.append((f"createInt({n})", e2e.SVM, sel("createInt(uint256,string)") + n.to_bytes(32, "big") + (64).to_bytes(32, "big") + enc_string(b"x"),
                      ("int", n)))
    cases.append(("createUint256", e2e.SVM, sel("createUint256(string)") + (32).to_bytes(32, "big") + enc_string(b"x"), ("uint", 256)))
    cases.append(("createInt256", e2e.SVM, sel("createInt256(string)") + (32).to_bytes(32, "big") + enc_string(b"x"), ("int", 256)))
    cases.append(("createAddress", e2e.SVM, sel("createAddress(string)") + (32).to_bytes(32, "big") + enc_string(b"x"), ("uint", 160)))
    cases.append(("createBool", e2e.SVM, sel("createBool(string)") + (32).to_bytes(32, "big") + enc_string(b"x"), ("uint", 1)))
    cases.append(("createBytes32", e2e.SVM, sel("createBytes32(string)") + (32).to_bytes(32, "big") + enc_string(b"x"), ("uint", 256)))
    cases.append(("createBytes4", e2e.SVM, sel("createBytes4(string)") + (32).to_bytes(32, "big") + enc_string(b"x"), ("bytesN", 4)))
    for lo, hi in [(0, M), (1, 1), (5, 10), ((1 << 255) - 1, (1 << 255) + 1), (1 << 255, M), (0, (1 << 255) - 1), (M - 1, M)]:
        cases.append((f"createUint256[{lo:#x},{hi:#x}]", e2e.SVM, sel("createUint256(string,uint256,uint256)") + (96).to_bytes(32, "big")
                      + lo.to_bytes(32, "big") + hi.to_bytes(32, "big") + enc_string(b"x"), ("range", lo, hi)))
        cases.append((f"randomUint[{lo:#x},{hi:#x}]", e2e.HEVM, sel("randomUint(uint256,uint256)") + lo.to_bytes(32, "big") + hi.to_bytes(32, "big"),
                      ("range", lo, hi)))
    cases.append(("randomUint()", e2e.HEVM, sel("randomUint()"), ("uint", 256)))
    for n in (8, 160, 256):
        cases.append((f"randomUint({n})", e2e.HEVM, sel("randomUint(uint256)") + n.to_bytes(32, "big"), ("uint", n)))
    cases.append(("randomInt()", e2e.HEVM, sel("randomInt()"), ("int", 256)))
    for n in (8, 128, 256):
        cases.append((f"randomInt({n})", e2e.HEVM, sel("randomInt(uint256)") + n.to_bytes(32, "big"), ("int", n)))
    cases.append(("randomAddress()", e2e.HEVM, sel("randomAddress()"), ("uint", 160)))
    cases.append(("randomBool()", e2e.HEVM, sel("randomBool()"), ("uint", 1)))
    cases.append(("randomBytes4()", e2e.HEVM, sel("randomBytes4()"), ("bytesN", 4)))
    cases.append(("randomBytes8()", e2e.HEVM, sel("randomBytes8()"), ("bytesN", 8)))
    return cases


def spec_of(kind, v):
    """-> (validity formula over the returned 256-bit word, [extreme admissible values])"""
    M = (1 << 256) - 1
    if kind[0] == "uint":
        n = kind[1]
        return (z3.BoolVal(True) if n == 256 else z3.ULT(v, z3.BitVecVal(1 << n, 256))), [0, (1 << n) - 1]
    if kind[0] == "int":
        n = kind[1]
        if n == 256:
            return z3.BoolVal(True), [0, M, 1 << 255]
        return z3.SignExt(256 - n, z3.Extract(n - 1, 0, v)) == v, [0, M, (M << (n - 1)) & M, (1 << (n - 1)) - 1]
    if kind[0] == "bytesN":
        n = kind[1]
        return z3.Extract(255 - 8 * n, 0, v) == 0, [0, ((1 << (8 * n)) - 1) << (256 - 8 * n)]
    if kind[0] == "range":
        lo, hi = kind[1], kind[2]
        return z3.And(z3.UGE(v, z3.BitVecVal(lo, 256)), z3.ULE(v, z3.BitVecVal(hi, 256))), [lo, hi]
    raise ValueError(kind)


def fresh_symbols(run):
    cls = "fresh-symbols"
    for name, target, blob, kind in fresh_cases(run.tier):
        items = raw_cheat(target, blob, 0x400, 32) + raw_cheat(target, blob, 0x420, 32) + [("PUSH", 64), ("PUSH", 0x400), "RETURN"]
        p = families._mk_multi(f"fresh#{name}", items, {}, features=(name,), ncd=1, balances=())
        p.callvalue_zero = True
        try:
            sevm, recs, hdata = progs.run_halmos(p, progs.Inputs(p))
        except Exception as e:
            run.inconc(cls, name, f"engine raised {type(e).__name__}: {e}")
            continue
        good = [(r, d) for r, d in zip(recs, hdata) if r.error is None and d is not None and len(d) == 64]
        if len(good) != 1 or len(recs) != 1:
            kinds = [type(r.error).__name__ for r in recs]
            # an unknown selector in this halmos version is not a violation of the property
            run.inconc(cls, name, f"no single successful path (outcomes {kinds})")
            continue
        r, d = good[0]
        pc = [exact.inline(c) for c in r.conds]
        v1, v2 = z3.Concat(*d[:32]), z3.Concat(*d[32:])
        f1, ext = spec_of(kind, v1)
        f2, _ = spec_of(kind, v2)
        # (a) width / encoding / range are entailed by the path
        res = portfolio.solve(pc + [z3.Not(z3.And(f1, f2))], timeout=run.bounds["solver_cap_s"])
        run.note_solver(res)
        if res.status == "unsat":
            run.ok(cls, name + "/range")
        elif res.status == "sat":
            run.violation(cls, f"fresh/{name.split('(')[0].split('[')[0]}/range", f"{name}: the returned value is not confined to the requested "
                          f"width/encoding/range on the path (solver model {dict(list(res.model.items())[:3])})",
                          {"case": name, "code": p.contracts[progs.THIS].hex()})
            continue
        else:
            run.inconc(cls, name + "/range", f"solver {res.status}")
        # (b) every admissible value is possible and the two calls are independent: swapped extreme targets
        bad = None
        pairs = [(ext[0], ext[-1]), (ext[-1], ext[0])] + [(e, e) for e in ext]
        for t1, t2 in pairs:
            res = portfolio.solve(pc + [v1 == z3.BitVecVal(t1, 256), v2 == z3.BitVecVal(t2, 256)], timeout=run.bounds["solver_cap_s"])
            run.note_solver(res)
            if res.status == "unsat":
                res2 = portfolio.solve(pc + [v1 == z3.BitVecVal(t1, 256), v2 == z3.BitVecVal(t2, 256)], timeout=60, want_all=True)
                if res2.status == "unsat":
                    bad = (t1, t2)
                    break
            elif res.status != "sat":
                bad = "unknown"
        if bad is None:
            run.ok(cls, name + "/independent")
        elif bad == "unknown":
            run.inconc(cls, name + "/independent", "solver unknown")
        else:
            run.violation(cls, f"fresh/{name.split('(')[0].split('[')[0]}/generic", f"{name}: two consecutive results cannot take the admissible "
                          f"values ({bad[0]:#x}, {bad[1]:#x}) together: the value is over-constrained or not independent of the earlier one",
                          {"case": name, "targets": [hex(bad[0]), hex(bad[1])], "code": p.contracts[progs.THIS].hex()})


def key_cheatcodes(run):
    """vm.addr / vm.sign with symbolic keys: the modelling axioms must not exclude inputs.  Decided on the path conditions
    and returned words of the real handlers:
      * two vm.addr calls on different key terms: inputs with k1 == k2 are admitted, and then the addresses are equal;
        the address is a 160-bit value; vm.addr is a function of the key (same key term -> same word);
      * vm.sign(k, d): v in {27,28}, 0 < r,s < n entailed; ecrecover(d, v, r, s) through the precompile equals vm.addr(k);
        two signatures with k1 == k2 and d1 == d2 are admitted and then coincide."""
    cls = "key-cheatcodes"
    cap = run.bounds["solver_cap_s"]

    def out(k):
        return [("PUSH", 0x400 + 32 * k), "MSTORE"]

    def addr_of(key_items, k):
        return e2e.call_cheat("addr(uint256)", [key_items], ret_words=1) + ["POP", ("PUSH", 0x80), "MLOAD"] + out(k)

    def sign(key_items, dig_items, k):
        return e2e.call_cheat("sign(uint256,bytes32)", [key_items, dig_items], ret_words=3) + ["POP"] + [
            ("PUSH", 0x80), "MLOAD"] + out(k) + [("PUSH", 0xA0), "MLOAD"] + out(k + 1) + [("PUSH", 0xC0), "MLOAD"] + out(k + 2)

    def run_prog(name, items, nwords, ncd):
        p = families._mk_multi(f"keys#{name}", items + [("PUSH", 32 * nwords), ("PUSH", 0x400), "RETURN"], {}, features=(name,), ncd=ncd, balances=())
        p.callvalue_zero = True
        sevm, recs, hdata = progs.run_halmos(p, progs.Inputs(p))
        good = [(r, d) for r, d in zip(recs, hdata) if r.error is None and d is not None and len(d) == 32 * nwords]
        return p, recs, good

    def words(d, n):
        return [z3.Concat(*d[32 * i:32 * i + 32]) for i in range(n)]

    k1, k2, d1, d2 = (z3.BitVec(f"cd{i}", 256) for i in range(4))
    # ---- vm.addr twice -------------------------------------------------------------------------------------------------
    try:
        p, recs, good = run_prog("addr-twice", addr_of(cd0, 0) + addr_of(cd1, 1) + addr_of(cd0, 2), 3, 2)
        if not good:
            run.inconc(cls, "addr-twice", f"no successful path ({[type(r.error).__name__ for r in recs]})")
        else:
            pcs = [z3.And(*[exact.inline(c) for c in r.conds]) if r.conds else z3.BoolVal(True) for r, _ in good]
            # coverage of k1 == k2
            res = portfolio.solve([z3.Or(*pcs), k1 == k2], timeout=cap)
            run.note_solver(res)
            if res.status == "sat":
                run.ok(cls, "addr/equal-keys-admitted")
            elif res.status == "unsat" and portfolio.solve([z3.Or(*pcs), k1 == k2], timeout=60, want_all=True).status == "unsat":
                run.violation(cls, "keys/addr/equal-keys-excluded", "two vm.addr calls on different key terms: no reported path admits inputs "
                              "with k1 == k2", {"code": p.contracts[progs.THIS].hex()})
            else:
                run.inconc(cls, "addr/equal-keys-admitted", res.status)
            for (r, d), pc in zip(good, pcs):
                a1, a2, a3 = words(d, 3)
                for nm, claim in (("function-of-key", z3.Implies(k1 == k2, a1 == a2)), ("same-term-same-address", a1 == a3),
                                  ("160-bit", z3.And(z3.Extract(255, 160, a1) == 0, z3.Extract(255, 160, a2) == 0))):
                    res = portfolio.solve([pc, z3.Not(claim)], timeout=cap)
                    run.note_solver(res)
                    if res.status == "unsat":
                        run.ok(cls, f"addr/{nm}")
                    elif res.status == "sat" and portfolio.solve([pc, z3.Not(claim)], timeout=60, want_all=True).status == "sat":
                        run.violation(cls, f"keys/addr/{nm}", f"vm.addr: {nm} does not hold on a reported path (model {dict(list(res.model.items())[:3])})",
                                      {"code": p.contracts[progs.THIS].hex()})
                    else:
                        run.inconc(cls, f"addr/{nm}", res.status)
    except Exception as e:
        run.inconc(cls, "addr-twice", f"{type(e).__name__}: {e}")
    # ---- vm.load on an account with symbolic storage agrees with the account's own SLOAD ---------------------------------------
    try:
        getter = ["PUSH0", "CALLDATALOAD", "SLOAD", "PUSH0", "MSTORE", ("PUSH", 32), "PUSH0", "RETURN"]
        blob = e2e.selector("enableSymbolicStorage(address)") + OBS.to_bytes(32, "big")
        for nm, slot in (("slot0", [("PUSH", 0)]), ("sym-slot", cd0)):
            items = raw_cheat(e2e.SVM, blob, 0, 0)
            items += e2e.call_cheat("load(address,bytes32)", [[("PUSH", OBS, 20)], slot], ret_words=1) + ["POP", ("PUSH", 0x80), "MLOAD"] + out(0)
            items += slot + [("PUSH", 0x100), "MSTORE", ("PUSH", 32), ("PUSH", 0x420), ("PUSH", 32), ("PUSH", 0x100), ("PUSH", 0), ("PUSH", OBS, 20), "GAS", "CALL", "POP"]
            p = families._mk_multi(f"keys#load-symbolic-{nm}", items + [("PUSH", 64), ("PUSH", 0x400), "RETURN"], {OBS: asm.assemble(getter)},
                                   features=(nm,), ncd=2, balances=())
            p.callvalue_zero = True
            sevm, recs, hdata = progs.run_halmos(p, progs.Inputs(p))
            good = [(r, d) for r, d in zip(recs, hdata) if r.error is None and d is not None and len(d) == 64]
            if not good:
                run.inconc(cls, f"load-symbolic/{nm}", f"no successful path ({[type(r.error).__name__ for r in recs]})")
                continue
            for r, d in good:
                pc = z3.And(*[exact.inline(c) for c in r.conds]) if r.conds else z3.BoolVal(True)
                w = words(d, 2)
                q = [pc, w[0] != w[1]]
                res = portfolio.solve(q, timeout=cap)
                run.note_solver(res)
                if res.status == "unsat":
                    run.ok(cls, f"load-symbolic/{nm}")
                elif res.status == "sat" and portfolio.solve(q, timeout=60, want_all=True).status == "sat":
                    run.violation(cls, f"keys/load-symbolic/{nm}", "vm.load on an account with symbolic storage returns a word that can "
                                  f"differ from the account's own SLOAD of that slot ({z3.simplify(w[0])} vs {str(z3.simplify(w[1]))[:80]})",
                                  {"code": p.contracts[progs.THIS].hex()})
                else:
                    run.inconc(cls, f"load-symbolic/{nm}", res.status)
    except Exception as e:
        run.inconc(cls, "load-symbolic", f"{type(e).__name__}: {e}")
    # ---- vm.sign + ecrecover ---------------------------------------------------------------------------------------------
    try:
        ecr = [("PUSH", 36), "CALLDATALOAD", ("PUSH", 0x200), "MSTORE", ("PUSH", 0x400), "MLOAD", ("PUSH", 0x220), "MSTORE", ("PUSH", 0x420), "MLOAD",
               ("PUSH", 0x240), "MSTORE", ("PUSH", 0x440), "MLOAD", ("PUSH", 0x260), "MSTORE",
               ("PUSH", 32), ("PUSH", 0x300), ("PUSH", 128), ("PUSH", 0x200), ("PUSH", 1), "GAS", "STATICCALL", "POP", ("PUSH", 0x300), "MLOAD"] + out(3)
        items = sign(cd0, cd1, 0) + ecr + addr_of(cd0, 4) + sign(cd2, [("PUSH", 100), "CALLDATALOAD"], 5)
        p, recs, good = run_prog("sign-recover", items, 8, 4)
        if not good:
            run.inconc(cls, "sign-recover", f"no successful path ({[type(r.error).__name__ for r in recs]})")
        else:
            N = 0xFFFFFFFFFFFFFFFFFFFFFFFFFFFFFFFEBAAEDCE6AF48A03BBFD25E8CD0364141
            pcs = [z3.And(*[exact.inline(c) for c in r.conds]) if r.conds else z3.BoolVal(True) for r, _ in good]
            K1, D1, K2, D2 = (z3.BitVec(f"cd{i}", 256) for i in range(4))  # sign(K1, D1) ... sign(K2, D2)
            res = portfolio.solve([z3.Or(*pcs), K1 == K2, D1 == D2], timeout=cap)
            run.note_solver(res)
            if res.status == "sat":
                run.ok(cls, "sign/equal-key-and-digest-admitted")
            elif res.status == "unsat" and portfolio.solve([z3.Or(*pcs), K1 == K2, D1 == D2], timeout=60, want_all=True).status == "unsat":
                run.violation(cls, "keys/sign/equal-inputs-excluded", "two vm.sign calls: no reported path admits k1 == k2 and d1 == d2",
                              {"code": p.contracts[progs.THIS].hex()})
            else:
                run.inconc(cls, "sign/equal-key-and-digest-admitted", res.status)
            for (r, d), pc in zip(good, pcs):
                v, rr, ss, rec_, a, v2, r2, s2 = words(d, 8)
                claims = {
                    "range": z3.And(z3.Or(v == 27, v == 28), z3.UGT(rr, 0), z3.ULT(rr, z3.BitVecVal(N, 256)), z3.UGT(ss, 0), z3.ULT(ss, z3.BitVecVal(N, 256))),
                    "ecrecover-gives-addr": rec_ == a,
                    "same-inputs-same-signature": z3.Implies(z3.And(K1 == K2, D1 == D2), z3.And(v == v2, rr == r2, ss == s2)),
                }
                for nm, claim in claims.items():
                    res = portfolio.solve([pc, z3.Not(claim)], timeout=cap)
                    run.note_solver(res)
                    if res.status == "unsat":
                        run.ok(cls, f"sign/{nm}")
                    elif res.status == "sat" and portfolio.solve([pc, z3.Not(claim)], timeout=60, want_all=True).status == "sat":
                        run.violation(cls, f"keys/sign/{nm}", f"vm.sign: {nm} does not hold on a reported path (model {dict(list(res.model.items())[:3])})",
                                      {"code": p.contracts[progs.THIS].hex()})
                    else:
                        run.inconc(cls, f"sign/{nm}", res.status)
    except Exception as e:
        run.inconc(cls, "sign-recover", f"{type(e).__name__}: {e}")


def main(run: common.Run):
    tier = run.tier
    maxlen = 2 if tier == "quick" else 3
    run.bounds = {"prank_history_length": maxlen, "solver_cap_s": 20 if tier == "quick" else 90,
                  "create_widths": "1,8,9,64,128,160,255,256" if tier == "quick" else "1..256"}
    run.functions_encoded = ["halmos.cheatcodes.hevm_cheat_code.handle", "halmos.cheatcodes.halmos_cheat_code.handle", "halmos.sevm.Exec.resolve_prank",
                             "halmos.cheatcodes.Prank", "halmos.sevm.SEVM.call / create (prank consumption)", "halmos.cheatcodes.create_*"]
    run.assumptions = families.ASSUMPTIONS[:4] + ["Foundry errors (prank while a prank is active) are outside",
                                                   "DELEGATECALL/CALLCODE under an active prank are outside"]
    only = set(run.args.only.split(",")) if run.args.only else None
    plist = []
    if not only or "prank" in only:
        plist += prank_programs(maxlen)
    if not only or "state" in only:
        plist += state_programs()
    if plist:
        stats = progcheck.run_programs(run, plist, want=("O1", "O2"))
        run.extra.update(stats)
    if not only or "fresh" in only:
        fresh_symbols(run)
    if not only or "keys" in only:
        key_cheatcodes(run)
    run.extra["rule"] = "one solver query per obligation over all address / value arguments"


if __name__ == "__main__":
    common.guarded_main("C14", "proof", main, generic_replay=True)
