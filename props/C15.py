"""C15 — invariant testing covers every bounded call sequence (DESIGN §1 C15).

Generated stateful targets (1-3 state-changing functions from a pool: counters, guarded setters, payable deposit,
sender-restricted setter, timestamp-gated unlock, lock-step and swapping writers, an inner assertion) are deployed by
setUp of a hand-assembled test contract with an invariant_ function; the real run_contract runs with
--invariant-depth d.  Ground truth: the reference EVM executes, symbolically, every function sequence of length <= d
(symbolic arguments, senders restricted by targetSenders/excludeSenders, values the sender can afford, non-decreasing
timestamps) and the solver decides whether some sequence breaks the invariant or an inner assertion.  Obligations:
ground truth "fails" => halmos FAIL; ground truth "safe" => halmos PASS.  A missed sequence is replayed (all symbols
pinned to the model) before it is reported.
"""

from __future__ import annotations

import os
import random
import sys

sys.path.insert(0, os.path.dirname(os.path.dirname(os.path.abspath(__file__))))

import z3  # noqa: E402

from lib import common, e2e, invoracle, oracle  # noqa: E402

OWNER = 0xC0FFEE
S1, S2, S3 = 0x5E4D01, 0x5E4D02, 0x5E4D03


def ret_word():
    return ["PUSH0", "MSTORE", ("PUSH", 32), "PUSH0", "RETURN"]


def require(items):
    """items leave a condition; revert if zero"""
    return items + [("PUSHL", "rq"), "JUMPI", "PUSH0", "PUSH0", "REVERT", ("LABEL", "rq")]


POOL = {
    "inc()": ["PUSH0", "SLOAD", ("PUSH", 1), "ADD", "PUSH0", "SSTORE"],
    "add(uint256)": require([("PUSH", 4)] + e2e.arg(0) + ["LT"]) + e2e.arg(0) + ["PUSH0", "SLOAD", "ADD", "PUSH0", "SSTORE"],
    "setY(uint256)": require([("PUSH", 10)] + e2e.arg(0) + ["LT"]) + e2e.arg(0) + [("PUSH", 1), "SSTORE"],
    "dec()": require(["PUSH0", "SLOAD"]) + [("PUSH", 1), "PUSH0", "SLOAD", "SUB", "PUSH0", "SSTORE"],
    "deposit()": ["CALLVALUE", ("PUSH", 1), "SLOAD", "ADD", ("PUSH", 1), "SSTORE"],
    "restricted(uint256)": require([("PUSH", OWNER, 20), "CALLER", "EQ"]) + e2e.arg(0) + ["PUSH0", "SSTORE"],
    "unlock()": require([("PUSH", 1000), "TIMESTAMP", "LT", "ISZERO"]) + [("PUSH", 77), "PUSH0", "SSTORE"],
    "both()": ["PUSH0", "SLOAD", ("PUSH", 1), "ADD", "PUSH0", "SSTORE", ("PUSH", 1), "SLOAD", ("PUSH", 1), "ADD", ("PUSH", 1), "SSTORE"],
    "swap()": ["PUSH0", "SLOAD", ("PUSH", 1), "SLOAD", "PUSH0", "SSTORE", ("PUSH", 1), "SSTORE"],
    "trap(uint256)": e2e.arg(0) + [("PUSH", 7), "EQ", "PUSH0", "SLOAD", ("PUSH", 2), "EQ", "AND", ("PUSHL", "bad"), "JUMPI", "STOP", ("LABEL", "bad")] + e2e.panic(1),
    "setA(uint256)": e2e.arg(0) + ["PUSH0", "SSTORE"],
    "setB(uint256)": e2e.arg(0) + [("PUSH", 1), "SSTORE"],
    "setB2(uint256)": require(["PUSH0", "SLOAD"]) + e2e.arg(0) + [("PUSH", 1), "SSTORE"],
    "tset(uint256)": e2e.arg(0) + ["PUSH0", "TSTORE"] + e2e.arg(0) + [("PUSH", 2), "SSTORE"],
    "mark()": ["TIMESTAMP", ("PUSH", 3), "SSTORE", ("PUSH", 1), ("PUSH", 4), "SSTORE"],
    "hit()": [("PUSH", 4), "SLOAD", ("PUSH", 3), "SLOAD", "TIMESTAMP", "EQ", "AND", ("PUSHL", "h"), "JUMPI", "STOP", ("LABEL", "h"), ("PUSH", 55), "PUSH0", "SSTORE"],
    # two asserts in one target: the first can never fail (timestamps start above 0) but looks feasible to a solver that
    # only knows the state-related constraints; the second fails on the third call
    "tick()": ["TIMESTAMP", "ISZERO", ("PUSHL", "bad"), "JUMPI", "PUSH0", "SLOAD", ("PUSH", 2), "EQ", ("PUSHL", "bad"), "JUMPI",
               "PUSH0", "SLOAD", ("PUSH", 1), "ADD", "PUSH0", "SSTORE", "STOP", ("LABEL", "bad")] + e2e.panic(1),
    # the stored value is tied to a second argument that is constrained only AFTER the tie (x == y, then a branch on y):
    # the two branch states hold the same storage term under different constraints and must not be merged
    "seteq(uint256,uint256)": require(e2e.arg(0) + e2e.arg(1) + ["EQ"]) + [("PUSH", 2)] + e2e.arg(1) + ["GT", ("PUSHL", "big"), "JUMPI",
                                                                           e2e.arg(0)[0], e2e.arg(0)[1], "PUSH0", "SSTORE", "STOP", ("LABEL", "big"),
                                                                           ("PUSH", 1), ("PUSH", 1), "SSTORE"] + e2e.arg(0) + ["PUSH0", "SSTORE"],
    # an unrelated requirement first, then the store, then a branch on the stored argument: the two branch states differ
    # only in the constraint on the stored value
    "setsmall(uint256,uint256)": require(e2e.arg(1)) + e2e.arg(0) + ["PUSH0", "SSTORE", ("PUSH", 10)] + e2e.arg(0) + [
        "LT", ("PUSHL", "small"), "JUMPI", "STOP", ("LABEL", "small"), "PUSH0", "PUSH0", "LOG0"],
    "seed(uint256)": require([("PUSH", 3)] + e2e.arg(0) + ["LT"]) + e2e.arg(0) + [("PUSH", 5), "MUL", ("PUSH", 1), "SSTORE"],
}
TGET = ("tget()", ["PUSH0", "TLOAD"] + ret_word())
GETTERS = [("x()", ["PUSH0", "SLOAD"] + ret_word()), ("y()", [("PUSH", 1), "SLOAD"] + ret_word()), ("bal()", ["SELFBALANCE"] + ret_word())]
PAYABLE = {"deposit()"}


def get(sig):
    """invariant side: STATICCALL target.sig() -> word on the stack"""
    return e2e.ext_call([("PUSH", 0), "SLOAD"], sig, static=True) + ["POP", ("PUSH", 0x80), "MLOAD"]


def fail_if(cond_items):
    return cond_items + [("PUSHL", "bad"), "JUMPI", "STOP", ("LABEL", "bad")] + e2e.panic(1)


INVARIANTS = {
    "x!=K": lambda K: fail_if(get("x()") + [("PUSH", K), "EQ"]),
    "x+y!=K": lambda K: fail_if(get("x()") + get("y()") + ["ADD", ("PUSH", K), "EQ"]),
    "x<K": lambda K: fail_if([("PUSH", K)] + get("x()") + ["LT", "ISZERO"]),
    "y!=K": lambda K: fail_if(get("y()") + [("PUSH", K), "EQ"]),
    "bal==0": lambda K: fail_if(get("bal()") + ["ISZERO", "ISZERO"]),
    "bal==y": lambda K: fail_if(get("bal()") + get("y()") + ["EQ", "ISZERO"]),
    "!(x==5&&y==7)": lambda K: fail_if(get("x()") + [("PUSH", 5), "EQ"] + get("y()") + [("PUSH", 7), "EQ", "AND"]),
    # the same with two nested branches (a branch condition of an earlier frontier state must not constrain later ones)
    "nested!(x==5&&y==7)": lambda K: get("x()") + [("PUSH", 5), "EQ", ("PUSHL", "a"), "JUMPI", "STOP", ("LABEL", "a")] + get("y()") + [
        ("PUSH", 7), "EQ", ("PUSHL", "bad"), "JUMPI", "STOP", ("LABEL", "bad")] + e2e.panic(1),
    "tget==0": lambda K: fail_if(get("tget()") + ["ISZERO", "ISZERO"]),
    "y<K": lambda K: fail_if([("PUSH", K)] + get("y()") + ["LT", "ISZERO"]),
    "x!=y+K": lambda K: fail_if(get("x()") + get("y()") + [("PUSH", K), "ADD", "EQ"]),
}


def addr_array_getter(addrs):
    """returns address[] ABI-encoded"""
    it = [("PUSH", 0x20), "PUSH0", "MSTORE", ("PUSH", len(addrs)), ("PUSH", 0x20), "MSTORE"]
    for k, a in enumerate(addrs):
        it += [("PUSH", a, 20), ("PUSH", 0x40 + 32 * k), "MSTORE"]
    return it + [("PUSH", 0x40 + 32 * len(addrs)), "PUSH0", "RETURN"]


def fuzz_selector_getter(entries):
    """returns FuzzSelector[] = [(target, bytes4[] selectors)] for the target stored in slot 0; entries = list of sig lists"""
    words = [0x20, len(entries)]
    offs, structs, cur = [], [], 32 * len(entries)
    for sigs in entries:
        offs.append(cur)
        st = ["ADDR", 0x40, len(sigs)] + [int.from_bytes(e2e.selector(s), "big") << 224 for s in sigs]
        structs.append(st)
        cur += 32 * len(st)
    words += offs
    for st in structs:
        words += st
    it = []
    for k, w in enumerate(words):
        it += ([("PUSH", 0), "SLOAD"] if w == "ADDR" else [("PUSH", w, 32) if w >= (1 << 200) else ("PUSH", w)]) + [("PUSH", 32 * k), "MSTORE"]
    return it + [("PUSH", 32 * len(words)), "PUSH0", "RETURN"]


def mk_case(seed, k, tier):
    r = random.Random(f"c15-{seed}-{k}")
    nf = r.choice([1, 2, 2, 3])
    fns = r.sample(sorted(POOL), nf)
    inv_name = r.choice(sorted(INVARIANTS))
    K = r.choice([1, 2, 3, 5, 77, 10])
    depth = r.choice([0, 1, 2, 2] if tier == "quick" else [0, 1, 2, 2, 3])
    if depth == 3 and nf == 3:
        depth = 2
    senders = r.choice([None, None, ("target", [OWNER]), ("target", [S1, S2]), ("exclude", [OWNER]), ("exclude", [OWNER, S1]),
                        ("both", [OWNER, S1], [S1])])
    return dict(fns=fns, inv=inv_name, K=K, depth=depth, senders=senders, k=k, seed=seed)


def handmade():
    out = []
    for d in (1, 2):
        out.append(dict(fns=["both()"], inv="x!=K", K=2, depth=d, senders=None, k=f"lockstep-d{d}", seed=0))
        out.append(dict(fns=["swap()", "seed(uint256)"], inv="x!=K", K=5, depth=d, senders=None, k=f"swap-d{d}", seed=0))
        out.append(dict(fns=["restricted(uint256)"], inv="x!=K", K=3, depth=d, senders=("exclude", [OWNER, S1]), k=f"excl2-d{d}", seed=0))
        out.append(dict(fns=["restricted(uint256)"], inv="x!=K", K=3, depth=d, senders=("exclude", [S1, S2]), k=f"excl2b-d{d}", seed=0))
        out.append(dict(fns=["restricted(uint256)"], inv="x!=K", K=3, depth=d, senders=("target", [S1, OWNER]), k=f"tgt2-d{d}", seed=0))
        out.append(dict(fns=["deposit()"], inv="bal==0", K=0, depth=d, senders=None, k=f"deposit-bal0-d{d}", seed=0))
        out.append(dict(fns=["deposit()"], inv="bal==y", K=0, depth=d, senders=None, k=f"deposit-baly-d{d}", seed=0))
        out.append(dict(fns=["setA(uint256)", "setB(uint256)"], inv="!(x==5&&y==7)", K=0, depth=d, senders=None, k=f"setAB-d{d}", seed=0))
        out.append(dict(fns=["setA(uint256)", "setB(uint256)"], inv="nested!(x==5&&y==7)", K=0, depth=d, senders=None, k=f"setABn-d{d}", seed=0))
        out.append(dict(fns=["setB(uint256)", "setA(uint256)"], inv="nested!(x==5&&y==7)", K=0, depth=d, senders=None, k=f"setBAn-d{d}", seed=0))
        out.append(dict(fns=["setA(uint256)", "setB2(uint256)"], inv="nested!(x==5&&y==7)", K=0, depth=d, senders=None, k=f"setAB2n-d{d}", seed=0))
        # selector filters (several FuzzSelector entries for the same contract are a union)
        out.append(dict(fns=["inc()", "setY(uint256)", "dec()"], inv="x+y!=K", K=10, depth=2, senders=None, k=f"tsel-union-d{d}", seed=0,
                        target_selectors=[["inc()"], ["setY(uint256)"]]))
        out.append(dict(fns=["inc()", "setY(uint256)", "dec()"], inv="x+y!=K", K=10, depth=2, senders=None, k=f"tsel-one-d{d}", seed=0,
                        target_selectors=[["setY(uint256)", "dec()"]]))
        out.append(dict(fns=["inc()", "setY(uint256)"], inv="x+y!=K", K=10, depth=2, senders=None, k=f"xsel-d{d}", seed=0,
                        exclude_selectors=[["inc()"], ["x()"]]))
        # transient storage starts empty in every transaction (the invariant call is a new transaction)
        out.append(dict(fns=["tset(uint256)", "inc()"], inv="tget==0", K=0, depth=d, senders=None, k=f"transient-reset-d{d}", seed=0))
        # two calls in the same block (timestamps are non-decreasing, not strictly increasing)
        out.append(dict(fns=["mark()", "hit()"], inv="x!=K", K=55, depth=d + 1, senders=None, k=f"same-timestamp-d{d+1}", seed=0))
        # the call value is bounded by the SENDER's balance (setUp deals 5 wei to the only admissible sender)
        out.append(dict(fns=["deposit()"], inv="y<K", K=6, depth=d + 1, senders=("target", [S1]), k=f"sender-balance-d{d+1}", seed=0, deal=(S1, 5)))
        out.append(dict(fns=["deposit()"], inv="y<K", K=5, depth=d + 1, senders=("target", [S1]), k=f"sender-balance-reach-d{d+1}", seed=0, deal=(S1, 5)))
        out.append(dict(fns=["unlock()", "inc()"], inv="x!=K", K=77, depth=d, senders=None, k=f"unlock-d{d}", seed=0))
        out.append(dict(fns=["inc()", "trap(uint256)"], inv="x<K", K=10, depth=d + 1, senders=None, k=f"trap-d{d+1}", seed=0))
        out.append(dict(fns=["tick()"], inv="x<K", K=10, depth=d + 1, senders=None, k=f"tick-d{d+1}", seed=0))
        out.append(dict(fns=["setsmall(uint256,uint256)"], inv="x<K", K=10, depth=d, senders=None, k=f"setsmall-d{d}", seed=0))
        out.append(dict(fns=["setsmall(uint256,uint256)"], inv="x!=K", K=3, depth=d, senders=None, k=f"setsmall-eq-d{d}", seed=0))
        out.append(dict(fns=["seteq(uint256,uint256)"], inv="x!=K", K=1, depth=d, senders=None, k=f"seteq-small-d{d}", seed=0))
        out.append(dict(fns=["seteq(uint256,uint256)"], inv="x!=K", K=5, depth=d, senders=None, k=f"seteq-big-d{d}", seed=0))
    return out


def build(case):
    tfns = [(s, POOL[s], "payable") if s in PAYABLE else (s, POOL[s]) for s in case["fns"]] + GETTERS + (
        [TGET] if "tset(uint256)" in case["fns"] or case["inv"] == "tget==0" else [])
    target = e2e.Spec("Tgt", fns=tfns)
    setup_items = e2e.create_from_data("tgt", store_slot=0)
    if case.get("deal"):
        who, amount = case["deal"]
        setup_items += e2e.call_cheat("deal(address,uint256)", [[("PUSH", who, 20)], [("PUSH", amount)]]) + ["POP"]
    tfn = [("setUp()", setup_items), ("invariant_i()", INVARIANTS[case["inv"]](case["K"]))]
    ts, xs = [], []
    sd = case["senders"]
    tsel = case.get("target_selectors")
    xsel = case.get("exclude_selectors")
    if sd or tsel or xsel:
        sd = sd or ("none",)
        if sd[0] in ("target", "both"):
            ts = list(sd[1])
        if sd[0] == "exclude":
            xs = list(sd[1])
        if sd[0] == "both":
            xs = list(sd[2])
        # forge-std's StdInvariant always provides all six getters (halmos reads them all or none)
        tfn += [("targetSenders()", addr_array_getter(ts)), ("excludeSenders()", addr_array_getter(xs)),
                ("targetContracts()", addr_array_getter([])), ("excludeContracts()", addr_array_getter([])),
                ("targetSelectors()", fuzz_selector_getter(tsel) if tsel else addr_array_getter([])),
                ("excludeSelectors()", fuzz_selector_getter(xsel) if xsel else addr_array_getter([]))]
    test = e2e.Spec("InvT", fns=tfn, data={"tgt": target.creation()})
    return test, target, ts, xs


def factory_case(depth, first):
    """a factory target whose make() deploys a child; child.boom() sets its flag; the invariant reads factory.last().flag()"""
    child = e2e.Spec("Child", fns=[("boom()", [("PUSH", 1), "PUSH0", "SSTORE"]), ("flag()", ["PUSH0", "SLOAD"] + ret_word())])
    make = e2e.create_from_data("child") + [("PUSH", 5), "SSTORE"]
    bump = ["PUSH0", "SLOAD", ("PUSH", 1), "ADD", "PUSH0", "SSTORE"]
    fns = [("bump()", bump), ("make()", make)] if first == "bump" else [("make()", make), ("bump()", bump)]
    factory = e2e.Spec("Factory", fns=fns + [("last()", [("PUSH", 5), "SLOAD"] + ret_word())], data={"child": child.creation()})
    inv = e2e.ext_call([("PUSH", 0), "SLOAD"], "last()", static=True) + ["POP", ("PUSH", 0x80), "MLOAD", "DUP1", ("PUSHL", "has"), "JUMPI", "STOP", ("LABEL", "has")]
    inv += [("PUSH", int.from_bytes(e2e.selector("flag()"), "big") << 224, 32), ("PUSH", 0x80), "MSTORE", ("PUSH", 32), ("PUSH", 0x80), ("PUSH", 4), ("PUSH", 0x80),
            "DUP5", "GAS", "STATICCALL", "POP", "POP", ("PUSH", 0x80), "MLOAD", ("PUSHL", "bad"), "JUMPI", "STOP", ("LABEL", "bad")] + e2e.panic(1)
    test = e2e.Spec("InvF", fns=[("setUp()", e2e.create_from_data("f", store_slot=0)), ("invariant_i()", inv)], data={"f": factory.creation()})
    return test, factory, child


def run_factory(arg):
    depth, first, tier = arg
    rec = common.Recorder(tier=tier)
    ident = f"factory-{first}-first-d{depth}"
    try:
        test, factory, child = factory_case(depth, first)
        o = e2e.run(test, others=(factory, child), invariant_depth=depth, solver_timeout_assertion=60000)
        r = o.result("invariant_i")
        if r is None:
            rec.inconc("dynamic-targets", ident, f"no result: {o.warnings[:2]} {o.exception!r}")
            return rec.events, {"cases": 1}
        oracle_addrs = [0xAAAA0002 + i for i in range(8)]
        state = oracle.post_setup(test, address_oracle=oracle_addrs)
        env = dict(state[2])
        truth = invoracle.ground_truth((state[0], state[1], env), [], "invariant_i()", depth, cap=20 if tier == "quick" else 90,
                                       specs=[factory, child], address_oracle=oracle_addrs[1:])
        verdict = {0: "PASS", 1: "FAIL"}.get(r.exitcode, f"other({r.exitcode})")
        if truth.status == "unknown":
            rec.inconc("dynamic-targets", ident, f"ground truth undecided: {truth.detail}")
        elif truth.status == "fails" and verdict == "PASS":
            rec.violation("dynamic-targets", f"dynamic-targets/{first}-first/d{depth}", f"{ident}: the sequence {truth.sequence} (a contract deployed "
                          "by a target call is itself a target afterwards) breaks the invariant but halmos reports PASS",
                          {"sequence": truth.sequence, "line": o.line("invariant_i")})
        elif truth.status == "safe" and verdict == "FAIL" and any(pm.is_valid for pm in (r.models or [])):
            rec.violation("dynamic-targets", f"dynamic-targets-spurious/{first}-first/d{depth}", f"{ident}: FAIL with a valid counterexample on a safe "
                          "invariant", {"line": o.line("invariant_i")})
        elif verdict in ("PASS", "FAIL"):
            rec.ok("dynamic-targets", ident)
        else:
            rec.inconc("dynamic-targets", ident, f"verdict {verdict} ({o.warnings[:1]})")
    except oracle.OracleError as e:
        rec.inconc("dynamic-targets", ident, f"oracle: {e}")
    except Exception as e:
        import traceback

        rec.harness_error(f"{ident}: {type(e).__name__}: {e} | {traceback.format_exc().strip().splitlines()[-2][:160]}")
    return rec.events, {"cases": 1}

def two_instance_case(sel_a, sel_b, inv_on, K):
    """two instances a, b of the same target contract with DIFFERENT selector filters (targetSelectors() returns one
    FuzzSelector per instance); the invariant reads x() of `inv_on`"""
    tfns = [(sg, POOL[sg]) for sg in ("inc()", "setA(uint256)")] + GETTERS
    target = e2e.Spec("Tgt", fns=tfns)
    setup_items = e2e.create_from_data("tgt", store_slot=0) + e2e.create_from_data("tgt", store_slot=6)
    slot = 0 if inv_on == "a" else 6
    inv = fail_if(e2e.ext_call([("PUSH", slot), "SLOAD"], "x()", static=True) + ["POP", ("PUSH", 0x80), "MLOAD", ("PUSH", K), "EQ"])
    entries = [(0, sel_a), (6, sel_b)]
    words = [0x20, len(entries)]
    offs, structs, cur = [], [], 32 * len(entries)
    for sl, sigs in entries:
        offs.append(cur)
        st = [("ADDR", sl), 0x40, len(sigs)] + [int.from_bytes(e2e.selector(x), "big") << 224 for x in sigs]
        structs.append(st)
        cur += 32 * len(st)
    words += offs
    for st in structs:
        words += st
    it = []
    for k, w in enumerate(words):
        it += ([("PUSH", w[1]), "SLOAD"] if isinstance(w, tuple) else [("PUSH", w, 32) if w >= (1 << 200) else ("PUSH", w)]) + [
            ("PUSH", 32 * k), "MSTORE"]
    tsel_getter = it + [("PUSH", 32 * len(words)), "PUSH0", "RETURN"]
    tfn = [("setUp()", setup_items), ("invariant_i()", inv),
           ("targetSenders()", addr_array_getter([])), ("excludeSenders()", addr_array_getter([])),
           ("targetContracts()", addr_array_getter([])), ("excludeContracts()", addr_array_getter([])),
           ("targetSelectors()", tsel_getter), ("excludeSelectors()", addr_array_getter([]))]
    return e2e.Spec("InvT2", fns=tfn, data={"tgt": target.creation()}), target


def run_two_instances(arg):
    sel_a, sel_b, inv_on, K, depth, tier = arg
    rec = common.Recorder(tier=tier)
    short = lambda l: "+".join(x.split("(")[0] for x in l)  # noqa: E731
    ident = f"two-instances a:[{short(sel_a)}] b:[{short(sel_b)}] inv {inv_on}.x!={K} d{depth}"
    key = f"two-instances/{short(sel_a)}/{short(sel_b)}/{inv_on}"
    try:
        test, target = two_instance_case(sel_a, sel_b, inv_on, K)
        o = e2e.run(test, others=(target,), invariant_depth=depth, solver_timeout_assertion=60000)
        r = o.result("invariant_i")
        if r is None:
            rec.inconc("selector-filters", ident, f"no result: {o.warnings[:2]} {o.exception!r}")
            return rec.events, {"cases": 1}
        A, B = 0xAAAA0002, 0xAAAA0003
        state = oracle.post_setup(test, address_oracle=[A, B])
        tgs = [invoracle.Target(A, target, list(sel_a)), invoracle.Target(B, target, list(sel_b))]
        truth = invoracle.ground_truth(state, tgs, "invariant_i()", depth, [], [], cap=20 if tier == "quick" else 90)
        verdict = {0: "PASS", 1: "FAIL"}.get(r.exitcode, f"other({r.exitcode})")
        if truth.status == "unknown":
            rec.inconc("selector-filters", ident, f"ground truth undecided: {truth.detail}")
        elif truth.status == "fails" and verdict == "PASS":
            rec.violation("selector-filters", key + "/missed", f"{ident}: the sequence {truth.sequence} with {fmt(truth.model)} breaks the "
                          "invariant but halmos reports PASS", {"sequence": truth.sequence, "model": truth.model, "line": o.line("invariant_i")})
        elif truth.status == "safe" and verdict == "FAIL" and any(pm.is_valid for pm in (r.models or [])):
            rec.violation("selector-filters", key + "/spurious", f"{ident}: FAIL with a valid counterexample although no admissible "
                          "sequence breaks the invariant (a filtered-out function was called)", {"line": o.line("invariant_i"), "stdout": o.stdout[-800:]})
        elif verdict in ("PASS", "FAIL"):
            rec.ok("selector-filters", ident)
        else:
            rec.inconc("selector-filters", ident, f"verdict {verdict} ({o.warnings[:1]})")
    except oracle.OracleError as e:
        rec.inconc("selector-filters", ident, f"oracle: {e}")
    except Exception as e:
        import traceback

        rec.harness_error(f"{ident}: {type(e).__name__}: {e} | {traceback.format_exc().strip().splitlines()[-2][:160]}")
    return rec.events, {"cases": 1}



def run_case(arg):
    case, tier = arg
    rec = common.Recorder(tier=tier)
    ident = f"{case['k']}: fns={case['fns']} inv={case['inv']}(K={case['K']}) depth={case['depth']} senders={case['senders']}"
    key = f"{case['inv']}/{'+'.join(sorted(f.split('(')[0] for f in case['fns']))}/d{case['depth']}/{case['senders'][0] if case['senders'] else 'any'}"
    stats = {"cases": 1}
    try:
        test, target, ts, xs = build(case)
        o = e2e.run(test, others=(target,), invariant_depth=case["depth"], solver_timeout_assertion=60000)
        r = o.result("invariant_i")
        if r is None:
            rec.inconc("invariant", ident, f"no result from run_contract: {o.warnings[:2]} {o.exception!r}")
            return rec.events, stats
        addr = 0xAAAA0002
        state = oracle.post_setup(test, address_oracle=[addr])
        callable_sigs = [s for s in target.sigs()]
        if case.get("target_selectors"):
            allowed = {s for ent in case["target_selectors"] for s in ent}
            callable_sigs = [s for s in callable_sigs if s in allowed]
        if case.get("exclude_selectors"):
            banned = {s for ent in case["exclude_selectors"] for s in ent}
            callable_sigs = [s for s in callable_sigs if s not in banned]
        tg = invoracle.Target(addr, target, callable_sigs)
        truth = invoracle.ground_truth(state, [tg], "invariant_i()", case["depth"], ts, xs, cap=20 if tier == "quick" else 90)
        rec.events.append(("solver", truth.solver_time, "portfolio"))
        stats[f"truth_{truth.status}"] = 1
        stats["sequences"] = truth.sequences_explored
        verdict = {0: "PASS", 1: "FAIL"}.get(r.exitcode, f"other({r.exitcode})")
        stats[f"halmos_{verdict}"] = 1
        flagged = any("loop unrolling bound" in m or "incomplete" in m for _, m in o.warnings)
        if truth.status == "unknown":
            rec.inconc("invariant", ident, f"ground truth undecided: {truth.detail}")
        elif truth.status == "fails":
            if verdict == "PASS" and not flagged and truth.detail == "assertion inside a target call" \
                    and "Assertion failure detected in" in o.stdout:
                # halmos prints the inner assertion failure (with a counterexample) but keeps the invariant test PASS
                rec.violation("inner-assertion-fails-test", "inner-assertion/reported-but-pass",
                              f"{ident}: the sequence {truth.sequence} trips an assertion inside a target; halmos prints 'Assertion "
                              f"failure detected' but the invariant test is PASS and the contract run exits 0",
                              {"case": case, "sequence": truth.sequence, "line": o.line("invariant_i")})
            elif verdict == "PASS" and not flagged:
                pinned = invoracle.ground_truth(state, [tg], "invariant_i()", case["depth"], ts, xs, cap=30, pins=truth.model)
                if pinned.status == "fails":
                    rec.violation("sequence-covered", key, f"{ident}: the call sequence {truth.sequence} with {fmt(truth.model)} breaks the "
                                  f"invariant ({truth.detail}) but halmos reports PASS",
                                  {"case": case, "sequence": truth.sequence, "model": truth.model, "line": o.line("invariant_i")})
                else:
                    rec.inconc("sequence-covered", ident, f"witness did not replay when pinned ({pinned.status})")
            else:
                rec.ok("sequence-covered", ident)
        else:
            if verdict == "FAIL" and any(pm.is_valid for pm in (r.models or [])):
                rec.violation("fail-has-breaking-sequence", key, f"{ident}: halmos reports FAIL with a counterexample marked valid, but no "
                              f"sequence of <= {case['depth']} admissible calls breaks the invariant (all {truth.queries} queries unsat)",
                              {"case": case, "line": o.line("invariant_i"), "models": [str(m) for m in r.models or []][:2],
                               "stdout": o.stdout[-1500:]})
            elif verdict == "PASS":
                rec.ok("pass-justified", ident)
            else:
                rec.inconc("pass-justified", ident, f"verdict {verdict} on a safe invariant without a valid counterexample")
    except oracle.OracleError as e:
        rec.inconc("oracle", ident, str(e))
    except Exception as e:
        import traceback

        rec.harness_error(f"{ident}: {type(e).__name__}: {e} | {traceback.format_exc().strip().splitlines()[-2][:160]}")
    return rec.events, stats


def fmt(m):
    return "{" + ", ".join(f"{k}={v:#x}" for k, v in sorted((m or {}).items()) if isinstance(v, int) and v) + "}"


def main(run: common.Run):
    tier = run.tier
    n = 14 if tier == "quick" else 400
    run.bounds = {"generated_cases": n, "handmade_cases": len(handmade()), "target_functions": "1..3 of " + str(len(POOL)), "depth": "0..2 (thorough 3)",
                  "solver_cap_s": 20 if tier == "quick" else 90}
    run.functions_encoded = ["halmos.__main__._compute_frontier", "halmos.__main__.run_target_contract", "halmos.__main__.run_target_function",
                             "halmos.__main__.get_state_id / visited", "halmos.__main__.get_target_senders / get_excluded_senders",
                             "halmos.__main__.run_message", "halmos.sevm.SEVM.run_message"]
    run.assumptions = ["A1-A4", "target and excluded senders as Foundry: effective targets = targets - excluded; if none, all but excluded",
                       "call value <= sender balance; timestamps non-decreasing 64-bit values after each call"]
    only = set(run.args.only.split(",")) if run.args.only else None
    cases = []
    if not only or "hand" in only:
        cases += handmade()
    if not only or "gen" in only:
        cases += [mk_case(run.seed, k, tier) for k in range(n)]
    total = {}
    for res in common.parallel_map(run_case, [(c, tier) for c in cases], 6):
        if res and res[0] == "error":
            run.harness_error("worker crashed: " + res[1].strip().splitlines()[-1])
            continue
        common.replay_events(run, res[0])
        for k, v in res[1].items():
            total[k] = total.get(k, 0) + v
    if not only or "hand" in only:
        for res in common.parallel_map(run_factory, [(d, f, tier) for d in (1, 2) for f in ("bump", "make")], 4):
            if res and res[0] == "error":
                run.harness_error("worker crashed: " + res[1].strip().splitlines()[-1])
                continue
            common.replay_events(run, res[0])
        INC, SETA = ["inc()"], ["setA(uint256)"]
        two = [(sa, sb, on, 5, d, tier) for sa, sb in ((INC, SETA), (SETA, INC)) for on in ("a", "b") for d in (1, 2)]
        for res in common.parallel_map(run_two_instances, two, 4):
            if res and res[0] == "error":
                run.harness_error("worker crashed: " + res[1].strip().splitlines()[-1])
                continue
            common.replay_events(run, res[0])
    run.extra.update(total)
    run.extra["rule"] = "one obligation per (target set, invariant, depth, sender filter); ground truth = sat/unsat over all call sequences"
    if not only and (not total.get("truth_fails") or not total.get("truth_safe")):
        run.harness_error(f"vacuity: ground truth mix {total}")


if __name__ == "__main__":
    common.guarded_main("C15", "proof", main, generic_replay=True)
