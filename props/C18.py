"""C18 — configuration resolves by precedence and round-trips.

Four groups of obligations, all on the real halmos code of VERIF_REPO_SRC:

1. Route P (CrossHair, lib/chx.py) on the real `Config`, `TomlParser`, `Parse*` classes
   * lib/c18_prec.py: stacks of k <= 3 (quick) / 5 (thorough) override layers with symbolic source, value and None flag
     per layer for an int, a bool and a structured option (and all three at once with independent None flags)
     against an independent reference resolution; `resolved_solver_command` for symbolic layerings of --solver /
     --solver-command; halmos.toml key normalisation, unknown-key and section rejection.
   * lib/c18_rt.py: parse(unparse(v)) == v for containers of <= 3 ints; malformed short strings must raise.
   Every condition has a mechanically derived reachability twin (`post: False` must be refuted).
   A CrossHair counterexample is replayed natively under /venv/bin/python before it may become a violation;
   "Not confirmed" / "Unable to meet precondition" / time-outs are inconclusive.
2. Route A (lib/c18_timeout.py): `ParseTimeout.unparse` and `parse_time` are translated from the AST to QF_FPBV and z3
   searches for an integer N with parse(unparse(parse("N<unit>"))) != parse("N<unit>"); models are replayed on the
   real class.  The translator is validated against the real functions on a grid first.
   lib/c18_strsmt.py does the same for the CSV kernels of ParseCSVInt / ParseErrorCodes (SMT-LIB strings, cvc5) as a
   second engine next to CrossHair (hex formatting makes CrossHair realise the value).
3. Annotation scoping through the real `_main` (lib/c18_e2e.py): per scenario the Config objects every function and
   contract actually ran with are compared (value and source) with an independent reference.
"""

from __future__ import annotations

import concurrent.futures as cf
import json
import os
import shutil
import sys
import tempfile
import threading
import time

sys.path.insert(0, os.path.dirname(os.path.dirname(os.path.abspath(__file__))))

from lib import chx, common  # noqa: E402

LIB = os.path.join(common.VERIF, "lib")
PREC = os.path.join(LIB, "c18_prec.py")
RT = os.path.join(LIB, "c18_rt.py")
KNOWN_KEY = "ParseTimeout/unparse-lossy"

# name prefix -> (obligation class, module)
CLASSES = [("prec_", "precedence"), ("solver_cmd_", "solver-command"), ("toml_", "toml"), ("rt_", "roundtrip"),
           ("rej_", "rejection")]

# rough single-core seconds (measured), used only to start the long conditions first
COST = {"solver_cmd_3": 900, "rej_timeout_3": 900, "rej_csvint_3": 400, "rej_errcodes_3": 400, "rej_arrlen_3": 300,
        "rej_events_3": 200, "rt_errcodes_1": 100, "prec_all_3": 200, "rt_csvint_3": 100, "solver_cmd_2": 106,
        "rej_timeout_2": 106, "prec_enum_3": 107, "rt_arrlen_3": 116, "rt_arrlen_2": 80, "toml_norm": 60,
        "rt_csvint_2": 40, "rt_arrlen_1": 50, "rej_csvint_2": 42, "rej_errcodes_2": 40}

QUICK = (["prec_%s_%d" % (o, k) for o in ("int", "bool", "struct") for k in (1, 2, 3)]
         + ["prec_all_1", "prec_all_2", "prec_enum_1", "prec_enum_2", "solver_cmd_1", "solver_cmd_2",
            "toml_norm", "toml_native", "toml_sections", "toml_unknown_0", "toml_unknown_1", "toml_unknown_2", "toml_unknown_3",
            "rt_csvint_1", "rt_csvint_2", "rt_errcodes_1", "rt_errcodes_2", "rt_errcodes_3",
            "rt_arrlen_1", "rt_arrlen_2", "rt_events",
            "rej_timeout_2", "rej_csvint_2", "rej_errcodes_2", "rej_arrlen_2", "rej_arrlen_3", "rej_events_2"])
THOROUGH_EXTRA = (["prec_%s_%d" % (o, k) for o in ("int", "bool", "struct") for k in (4, 5)]
                  + ["prec_all_3", "prec_enum_3", "solver_cmd_3", "rt_csvint_3", "rt_arrlen_3",
                     "rej_timeout_3", "rej_csvint_3", "rej_errcodes_3", "rej_events_3"])


def cls_of(name: str) -> str:
    for p, c in CLASSES:
        if name.startswith(p):
            return c
    return "other"


def wanted(run, group: str, name: str = "") -> bool:
    only = run.args.only
    if not only:
        return True
    toks = [t.strip() for t in only.split(",") if t.strip()]
    return any(t == group or (name and name.startswith(t)) or (name and cls_of(name) == t) for t in toks)


# ---------------------------------------------------------------------------
# Route A worker (one query per process; z3 4.12.6 in-process FP)
# ---------------------------------------------------------------------------
def timeout_queries(tier: str):
    hi = 10 ** 7 if tier == "quick" else 10 ** 9
    small = 10 ** 5 if tier == "quick" else 10 ** 7
    return [
        # (id, unit, lo, hi, extra, expectation note)
        ("ms<1000", "ms", 0, 999, None),
        ("ms:1000..1999", "ms", 1000, 1999, None),
        ("ms>=1000", "ms", 1000, hi, None),
        ("ms=k*1000", "ms", 1000, 10 ** 7, "mult1000"),  # characterises the loss: whole seconds do survive
        ("s", "s", 0, hi, None),
        ("m", "m", 0, small, None),
        ("h", "h", 0, small, None),
        ("bare<1000", "", 0, 999, None),
        ("float<1ms", None, None, None, "subms"),
        ("float-integral", None, None, None, "integral"),
    ]


def solve_timeout_query(src_root: str, q, timeout_s: float) -> dict:
    import z3

    from lib import c18_timeout as T

    qid, unit, lo, hi, extra = q
    t0 = time.time()
    try:
        model = T.Model(src_root)
        s = z3.Solver()
        s.set("timeout", int(timeout_s * 1000))
        if unit is not None:
            n = z3.BitVec("N", T.NBITS)
            x0 = model.parse_int_with_suffix(n, unit)
            defect, _ = model.roundtrip_defect(x0)
            s.add(n >= lo, n <= hi, defect)
            if extra == "mult1000":
                s.add(z3.URem(n, 1000) == 0)
        else:
            x0 = z3.FP("x", T.F64)
            defect, _ = model.roundtrip_defect(x0)
            s.add(z3.Not(z3.fpIsNaN(x0)), z3.Not(z3.fpIsInf(x0)), z3.fpGEQ(x0, z3.FPVal(0.0, T.F64)), defect)
            if extra == "subms":
                s.add(z3.fpLT(x0, z3.FPVal(0.001, T.F64)))
            else:  # integral number of seconds in [1, 2^40]: unparse renders it exactly
                s.add(z3.fpGEQ(x0, z3.FPVal(1.0, T.F64)), z3.fpLEQ(x0, z3.FPVal(2.0 ** 40, T.F64)),
                      z3.fpEQ(z3.fpRoundToIntegral(z3.RTZ(), x0), x0))
        r = s.check()
        out = {"id": qid, "result": str(r), "time": round(time.time() - t0, 2)}
        if r == z3.sat:
            m = s.model()
            if unit is not None:
                out["text"] = f"{m.eval(n, model_completion=True).as_signed_long()}{unit}"
            else:
                out["text"] = repr(T.fp_to_float(m.eval(x0, model_completion=True))) + "s"
        elif r == z3.unknown:
            out["reason"] = s.reason_unknown()
        return out
    except T.Unsupported as e:
        return {"id": qid, "result": "unsupported", "reason": str(e), "time": round(time.time() - t0, 2)}


def replay_timeout(text: str) -> dict:
    """the real class on the witness string (this process is /venv/bin/python with halmos from VERIF_REPO_SRC)"""
    from halmos.config import ParseTimeout

    x0 = ParseTimeout.parse(text)
    u = ParseTimeout.unparse(x0)
    x1 = ParseTimeout.parse(u)
    return {"text": text, "parsed": x0, "unparsed": u, "reparsed": x1, "reproduced": x1 != x0}


def route_a(run, tier: str, pool: cf.ProcessPoolExecutor):
    from lib import c18_timeout as T

    cls = "timeout-routeA"
    try:
        model = T.Model(common.REPO_SRC)
        bad = T.validate(model)
    except T.Unsupported as e:
        for q in timeout_queries(tier):
            run.inconc(cls, q[0], f"translator: unsupported construct ({e})")
        return []
    if bad:
        run.harness_error(f"ParseTimeout translator disagrees with the real functions: {bad[:3]}")
        return []
    run.extra["timeout_translation_validation"] = f"{len(T.GRID) * 5} grid points (N x unit) agree with the real functions"
    run.extra["timeout_constructs"] = model.constructs
    tmo = 220 if tier == "quick" else 900
    return [(q, pool.submit(solve_timeout_query, common.REPO_SRC, q, tmo)) for q in timeout_queries(tier)
            if wanted(run, "timeout", "timeout")]


def collect_route_a(run, futs):
    cls = "timeout-routeA"
    for q, fu in futs:
        try:
            res = fu.result()
        except Exception as e:  # noqa: BLE001
            run.harness_error(f"route A worker {q[0]}: {type(e).__name__}: {e}")
            continue
        run.solver_time += res.get("time", 0.0)
        run.backend_wins["z3-fp"] = run.backend_wins.get("z3-fp", 0) + (res["result"] in ("sat", "unsat"))
        print(f"  [routeA] {res['id']:15s} {res['result']:8s} {res.get('time', 0):6.1f}s {res.get('text', res.get('reason', ''))}",
              flush=True)
        if res["result"] == "unsat":
            run.ok(cls, res["id"])
        elif res["result"] == "sat":
            rp = replay_timeout(res["text"])
            run.sample({"routeA": res["id"], **{k: str(v) for k, v in rp.items()}})
            if rp["reproduced"]:
                run.violation(cls, f"{KNOWN_KEY}/{res['id']}",
                              f"ParseTimeout.unparse is lossy: parse({rp['text']!r}) = {rp['parsed']!r} unparses to "
                              f"{rp['unparsed']!r}, which parses to {rp['reparsed']!r}",
                              {"kind": "timeout", **rp})
            else:
                run.inconc(cls, res["id"], f"model {res['text']} did not reproduce on the real class (translator gap)")
        else:
            run.inconc(cls, res["id"], f"{res['result']}: {res.get('reason', '')}")


# ---------------------------------------------------------------------------
# Route A (strings): CSV kernels -> SMT-LIB strings, cvc5
# ---------------------------------------------------------------------------
def strsmt_worker(src_root: str, cls: str, n: int, timeout_s: float) -> dict:
    from lib import c18_strsmt as X

    try:
        info = X.extract(src_root)
        vs, assertions = X.obligation(info[cls], info["parse_csv"], n)
        res = X.solve(vs, assertions, timeout_s)
    except X.Unsupported as e:
        res = {"result": "unsupported", "reason": str(e), "time": 0.0}
    res.update({"cls": cls, "n": n})
    return res


def route_a_strings(run, tier: str, pool):
    from lib import c18_strsmt as X

    bad = X.validate_builtins()
    if bad:
        run.harness_error(f"string builtin models disagree with the interpreter: {bad[:3]}")
        return []
    jobs = [("ParseErrorCodes", 1), ("ParseCSVInt", 1)]
    if tier == "thorough":
        jobs += [("ParseCSVInt", 2), ("ParseErrorCodes", 2)]
    tmo = 150 if tier == "quick" else 900
    return [pool.submit(strsmt_worker, common.REPO_SRC, c, n, tmo) for c, n in jobs]


def collect_route_a_strings(run, futs):
    from lib import c18_strsmt as X

    cls = "roundtrip-routeA"
    for fu in futs:
        try:
            res = fu.result()
        except Exception as e:  # noqa: BLE001
            run.harness_error(f"string route A worker: {type(e).__name__}: {e}")
            continue
        key = f"{res['cls']}/n={res['n']}"
        run.solver_time += res.get("time", 0.0)
        print(f"  [routeA-str] {key:22s} {res['result']:8s} {res.get('time', 0):6.1f}s {res.get('model', res.get('reason', ''))}",
              flush=True)
        if res["result"] == "unsat":
            run.backend_wins["cvc5-strings"] = run.backend_wins.get("cvc5-strings", 0) + 1
            run.ok(cls, key)
        elif res["result"] == "sat":
            vals = [res["model"][k] for k in sorted(res["model"])]
            rp = X.replay(res["cls"], vals)
            if rp["reproduced"]:
                run.violation(cls, f"roundtrip/{res['cls']}", f"{res['cls']}: {rp['value']} unparses to {rp['unparsed']!r}, "
                              f"which parses to {rp['reparsed']}", {"kind": "strsmt", "cls": res["cls"], "values": vals, **rp})
            else:
                run.inconc(cls, key, f"model {vals} did not reproduce on the real class (builtin-model gap)")
        else:
            run.inconc(cls, key, f"{res['result']}: {res.get('reason', '')}")


# ---------------------------------------------------------------------------
# Route P
# ---------------------------------------------------------------------------
def select_conditions(run, tier: str, tmp: str):
    names = list(QUICK) + (THOROUGH_EXTRA if tier == "thorough" else [])
    main, twins = [], []
    per = {PREC: chx.conditions(PREC), RT: chx.conditions(RT)}
    tw = {f: chx.conditions(chx.make_twin(f, tmp)) for f in per}
    t_main = 180 if tier == "quick" else 1500
    for n in names:
        if not wanted(run, "chx", n):
            continue
        f = PREC if n in per[PREC] else RT if n in per[RT] else None
        if f is None:
            run.harness_error(f"condition {n} not found in the harness modules")
            continue
        c = per[f][n]
        c.timeout = t_main
        main.append(c)
        t = tw[f][n]
        t.twin, t.timeout = True, t_main
        twins.append(t)
    # one crosshair process per (condition, twin) pair -- the twin stops at the first path that reaches the end
    pairs = {t.name: t for t in twins}
    order = sorted(main, key=lambda c: -COST.get(c.name, 20))
    return [[c, pairs[c.name]] for c in order]


def handle_verdicts(run, conds, verdicts):
    by_name = {}
    for grp, vs in zip(conds, verdicts):
        for c, v in zip(grp, vs):
            by_name.setdefault(c.name, {})["twin" if c.twin else "main"] = (c, v)
    stats = {"confirmed": 0, "twins_refuted": 0}
    for name, d in by_name.items():
        cls = cls_of(name)
        if "main" in d:
            c, v = d["main"]
            if v.status == "confirmed":
                run.ok(cls, name)
                stats["confirmed"] += 1
            elif v.status == "counterexample":
                rp = chx.replay(c.file, v.call) if v.call else {"reproduced": False, "error": "no call printed"}
                if rp.get("reproduced"):
                    run.violation(cls, f"{cls}/{name}", f"{name}: {v.call} -> {rp.get('detail') or rp.get('raised')}",
                                  {"kind": "chx", "module": os.path.basename(c.file), "call": v.call, "replay": rp,
                                   "crosshair": v.message})
                else:
                    run.inconc(cls, name, f"CrossHair counterexample {v.call} did not reproduce natively "
                                          f"(harness/z3-version artefact): {v.message[:120]}")
            elif v.inconclusive:
                run.inconc(cls, name, f"CrossHair: {v.message or v.status} after {v.elapsed}s")
            else:
                run.harness_error(f"{name}: {v.message[:300]}")
            run.extra.setdefault("chx_seconds", {})[name] = v.elapsed
        if "twin" in d:
            c, v = d["twin"]
            if v.status == "counterexample":
                rp = chx.replay(os.path.join(LIB, os.path.basename(c.file).replace("__reach", "")), v.call) \
                    if v.call else {"held": False}
                if rp.get("held"):
                    run.ok("reachability", name)
                    stats["twins_refuted"] += 1
                    run.sample({"reach": name, "call": v.call})
                else:
                    run.inconc("reachability", name, f"twin refuted by {v.call} but the native run did not return True: {rp}")
            elif v.status == "confirmed":
                run.harness_error(f"{name}: `post: False` was CONFIRMED -- the harness never reaches its assertion (vacuous)")
            elif v.inconclusive:
                run.inconc("reachability", name, f"twin: {v.message or v.status}")
            else:
                run.harness_error(f"{name} (twin): {v.message[:300]}")
    return stats


# ---------------------------------------------------------------------------
# annotation scoping
# ---------------------------------------------------------------------------
def scoping_worker(tier: str, seed: int) -> dict:
    """runs in its own process: lib/e2e stubs `subprocess.run` process-wide while _main runs, which must not be seen by
    the CrossHair runner threads of the parent"""
    from lib import c18_e2e as E

    scns = E.scenarios(tier, seed)
    exercised = {"annotation_wins": 0, "cli_beats_annotation": 0, "two_contracts_differ": 0}
    rows = []
    for scn, style in scns:
        key = E.key_of(scn)
        row = {"key": key, "scenario": sorted(scn), "style": style}
        try:
            bad = E.run_scenario(scn, style)
            # a mismatch is re-run once: the second concrete run of the real _main is the replay
            row["bad"], row["again"] = bad[:6], (E.run_scenario(scn, style)[:6] if bad else [])
        except Exception as e:  # noqa: BLE001
            row["error"] = f"{type(e).__name__}: {e}"
        ann = [s for s in scn if s.startswith(("natspec", "devdoc"))]
        if ann and "cli" not in scn:
            exercised["annotation_wins"] += 1
        if ann and "cli" in scn:
            exercised["cli_beats_annotation"] += 1
        if ("natspec:A" in scn) != ("natspec:B" in scn) and "cli" not in scn:
            exercised["two_contracts_differ"] += 1
        rows.append(row)
    for variant in range(3):
        for style in range(3 if tier == "thorough" else 1):
            row = {"key": f"same-name/v{variant}/s{style}", "scenario": ["same-name", variant], "style": style}
            try:
                bad = E.run_same_name(variant, style)
                row["bad"], row["again"] = bad[:6], (E.run_same_name(variant, style)[:6] if bad else [])
            except Exception as e:  # noqa: BLE001
                row["error"] = f"{type(e).__name__}: {e}"
            rows.append(row)
    return {"rows": rows, "exercised": {**exercised, "scenarios": len(scns)}}


def collect_scoping(run, fut):
    cls = "annotation-scoping"
    try:
        res = fut.result()
    except Exception as e:  # noqa: BLE001
        run.harness_error(f"scoping worker: {type(e).__name__}: {e}")
        return
    seen, more = set(), {}
    for row in res["rows"]:
        if "error" in row:
            run.harness_error(f"scoping {row['key']}: {row['error']}")
        elif not row["bad"]:
            run.ok(cls, row["key"])
        elif row["again"]:
            first = row["again"][0]
            # key by the kind of mismatch and where it was observed, not by the whole scenario
            vkey = f"scoping/{first.get('what', '?').replace(' ', '-')}/{first.get('contract', '?')}"
            if vkey in seen:  # one VIOLATION line / replay file per failing input class
                more[vkey] = more.get(vkey, 0) + 1
                continue
            seen.add(vkey)
            run.violation(cls, vkey, f"setters [{row['key']}] natspec style {row['style']}: {first}",
                          {"kind": "e2e", "scenario": row["scenario"], "style": row["style"], "mismatches": row["again"]})
        else:
            run.inconc(cls, row["key"], f"mismatch did not reproduce on a second run: {row['bad'][:1]}")
    ex = res["exercised"]
    if more:
        run.extra["scoping_more_scenarios_with_same_key"] = more
    run.extra["scoping_exercised"] = ex
    if ex["scenarios"] and not (ex["annotation_wins"] and ex["cli_beats_annotation"] and ex["two_contracts_differ"]):
        run.harness_error(f"scoping scenarios do not exercise the feature: {ex}")


def observations() -> list[str]:
    """concrete, informational only (not claimed, not violations): inputs at the edge of 'malformed'"""
    from halmos.config import ParseErrorCodes, ParseTimeout

    out = []
    for text in ("nan", "inf", "-5s"):
        try:
            out.append(f"ParseTimeout.parse({text!r}) = {ParseTimeout.parse(text)!r} (accepted)")
        except ValueError as e:
            out.append(f"ParseTimeout.parse({text!r}) rejected: {e}")
    try:
        v = ParseErrorCodes.parse("-7")
        u = ParseErrorCodes.unparse(v)
        try:
            back = ParseErrorCodes.parse(u)
        except ValueError as e:
            back = f"ValueError({e})"
        out.append(f"ParseErrorCodes.parse('-7') = {v!r}; unparse -> {u!r}; parse again -> {back}")
    except ValueError as e:
        out.append(f"ParseErrorCodes.parse('-7') rejected: {e}")
    return out


# ---------------------------------------------------------------------------
def do_replay(run, path: str):
    with open(path) as f:
        blob = json.load(f)
    w = blob.get("witness", blob)
    kind = w.get("kind")
    if kind == "timeout":
        rp = replay_timeout(w["text"])
    elif kind == "chx":
        rp = chx.replay(os.path.join(LIB, w["module"].replace("__reach", "")), w["call"])
    elif kind == "strsmt":
        from lib import c18_strsmt as X

        rp = X.replay(w["cls"], w["values"])
    elif kind == "e2e":
        from lib import c18_e2e as E

        bad = E.run_scenario(frozenset(w["scenario"]), w.get("style", 0))
        rp = {"reproduced": bool(bad), "mismatches": bad[:6]}
    else:
        run.harness_error(f"unknown witness kind in {path}")
        return
    print(json.dumps(rp, indent=1, default=str))
    # a replay re-runs one witness only: report and exit without rewriting evidence/C18.json
    if rp.get("reproduced"):
        e = run.match_known(blob.get("key", ""))
        if e is not None:
            print(f"KNOWN-FINDING: property=C18 {e['what']} [key={e['key']}]")
            sys.exit(common.EXIT_OK)
        print(f"VIOLATION property=C18 replay={path}\n  class={blob.get('class')} key={blob.get('key')}: {blob.get('what')}")
        sys.exit(common.EXIT_VIOLATION)
    print("not reproduced")
    sys.exit(common.EXIT_OK)


def main(run):
    tier = run.tier
    if run.args.replay:
        do_replay(run, run.args.replay)
        return
    run.functions_encoded = [
        "halmos.config.Config.value_with_source / __getattribute__ / with_overrides / resolved_solver_command",
        "halmos.config.TomlParser.parse_dict", "halmos.config.ParseTimeout / ParseErrorCodes / ParseCSVInt / "
        "ParseArrayLengths / ParseCSVTraceEvent (.parse, .unparse)", "halmos.utils.parse_time",
        "halmos.__main__._main / load_config / with_natspec / with_devdoc / run_contract / run_tests",
        "halmos.build.parse_natspec / parse_devdoc"]
    kmax = 3 if tier == "quick" else 5
    run.bounds = {
        "precedence": f"k <= {kmax} override layers above the real default layer, per layer: source in 1..5 (symbolic), "
                      "value symbolic (unbounded int / bool / dict built from a symbolic int), None flag symbolic; "
                      f"options loop, ffi, array_lengths (+ all three per layer with independent None flags, k <= "
                      f"{2 if tier == 'quick' else 3}); real enum members for k <= {2 if tier == 'quick' else 3}",
        "solver_command": "1 layer: all 5 sources; 2 layers: sources {config file, function annotation, command line} "
                          "(thorough: all 5); 3 layers (thorough only): those 3 sources; real ConfigSource members, "
                          "solver name a symbolic str, command unset / empty / one identifying command per layer",
        "toml": "every public Config field x every dash/underscore spelling of its first 4 separators; unknown keys = "
                "one delete/insert/replace edit (6-char alphabet) of loop, ffi, solver_command, array_lengths; "
                "0..2 sections from 5 names; internal keys _source/_parent/-source",
        "roundtrip": "ParseCSVInt: 1..2 (thorough 3) ints in [0,2^16) fully symbolic in CrossHair, n=1 (thorough 2) also by "
                     "cvc5; ParseErrorCodes: 1 code in [0,40) (thorough [0,300)), sets of <= 3 codes from 6-value ranges, "
                     "and 1 code in [0,2^16) by cvc5; ParseArrayLengths: <= 2 (thorough 3) names, <= 3 lengths each from "
                     "ranges of 3..12 values; ParseCSVTraceEvent: all lists of <= 3 events",
        "rejection": f"strings of <= {2 if tier == 'quick' else 3} symbols from per-parser alphabets of 7..11 symbols "
                     "(timeouts: 8 symbols for the 2-symbol strings in quick)",
        "timeout": "integer N in [0,10^7] (thorough 10^9 for the s form and the defect search) with unit ms/s/(m,h: 10^5, "
                   "thorough 10^7)/none, plus any "
                   "finite double below 1 ms and any integral double in [1,2^40]; decimals 'A.BCDs' with <= 3 fraction "
                   "digits equal the ms form (both are the correctly rounded quotient)",
        "scoping": "2 contracts x 3 functions (shared signature check_f(uint256[])), 8 setters (toml, cli, natspec A/B, "
                   "devdoc of 4 functions), 3 options, 3 natspec spellings; quick: all subsets of size <= 2, the full "
                   "set and 40 seeded subsets; thorough: all 256 subsets",
    }
    run.assumptions = [
        "CrossHair runs halmos under z3 5.x; used only on code that makes no z3 call; every counterexample is replayed "
        "under /venv/bin/python",
        "override sources are handed to with_overrides as symbolic ints 1..5 (ConfigSource is an IntEnum); harnesses "
        "*_enum_* and solver_cmd_* use the real members",
        "halmos.config.get_solver_command is stubbed by its contract (name -> command); halmos.config.warn is a no-op "
        "recorder inside the CrossHair harness (log text is not under test)",
        "Route A: Python float()/int()/'*'/'/' have IEEE-754 binary64 round-to-nearest-even semantics; float(str(M)) = M "
        "correctly rounded",
        "ParseErrorCodes / ParseCSVInt domains are non-negative ints (CrossHair does not confirm negative decimals)",
    ]
    run.extra["rule"] = ("one obligation = one CrossHair condition (symbolic scalar arguments, all paths), one z3 FP query "
                         "over a symbolic N / double, or one _main scenario whose recorded Config objects are compared "
                         "with the reference for all 6 functions x 3 options; distinct = distinct (class,key)")
    run.extra["explanation"] = ("rejection / hex / regex harnesses are decided by CrossHair exhausting a finite symbolic "
                                "domain (the parser realises the string); decimal round trips and precedence stay "
                                "symbolic (unbounded ints). ParseArrayLengths has no SMT fallback (re.findall semantics).")

    os.environ["C18_TIER"] = tier  # read by the harness modules (tier-dependent ranges), inherited by crosshair/replay
    err = chx.ensure_venv() if wanted(run, "chx", "x") else None
    tmp = tempfile.mkdtemp(prefix="verif_c18_")
    try:
        conds, verdicts, th = [], [], None
        if err:
            run.harness_error(err)
        else:
            conds = select_conditions(run, tier, tmp)

            def bg():
                def prog(c, v):
                    if run.args.verbose:
                        print(f"  [chx] {'twin ' if c.twin else ''}{v.name:16s} {v.status:14s} {v.elapsed:6.1f}s "
                              f"{v.call or ''}", flush=True)
                verdicts.extend(chx.run_many(conds, 200, jobs=max(1, min(run.args.jobs, 11)), progress=prog))

            th = threading.Thread(target=bg, daemon=True)
            th.start()

        futs = []
        import multiprocessing as mp

        pool = cf.ProcessPoolExecutor(max_workers=5, mp_context=mp.get_context("spawn"))
        try:
            sfut = pool.submit(scoping_worker, tier, run.seed) if wanted(run, "e2e", "scoping") else None
            if wanted(run, "timeout", "timeout"):
                futs = route_a(run, tier, pool)
            sfuts = route_a_strings(run, tier, pool) if wanted(run, "strsmt", "strsmt") else []
            if sfut is not None:
                collect_scoping(run, sfut)
            collect_route_a(run, futs)
            collect_route_a_strings(run, sfuts)
        finally:
            pool.shutdown(wait=True, cancel_futures=True)
        run.extra["observations_not_claimed"] = observations()
        if th is not None:
            th.join()
            stats = handle_verdicts(run, conds, verdicts)
            run.extra["chx_stats"] = {**stats, "conditions": len(conds), "twins": len(conds)}
            if conds and stats["confirmed"] == 0 and not run.violations:
                run.harness_error("no CrossHair condition was confirmed")
    finally:
        shutil.rmtree(tmp, ignore_errors=True)


if __name__ == "__main__":
    common.guarded_main("C18", "model_checking", main)
