"""C04 — counterexamples marked valid are reproducible (DESIGN §1 C04).

For every PotentialModel with is_valid produced by the real run_contract on the C03 grammar (including failures that
need refinement of mul/div/mod): the values are encoded by an independent canonical ABI encoder and executed concretely
on the reference EVM from the post-setUp state; the run must end in the reported kind of failure.  The reported values
must also equal an independent re-parse of the solver's output file (#x, #b and (_ bvN W) syntaxes).
"""

from __future__ import annotations

import os
import sys

sys.path.insert(0, os.path.dirname(os.path.dirname(os.path.abspath(__file__))))

from lib import common, e2echeck, e2egen  # noqa: E402


def main(run: common.Run):
    n = 6 if run.tier == "quick" else 60
    run.bounds = {"contracts": n, "functions_per_contract": 8, "configs": [c["name"] for c in e2echeck.CONFIGS],
                  "bytes_lengths": e2egen.BYTES_LENS, "array_lengths": e2egen.ARRAY_LENS}
    run.functions_encoded = ["halmos.__main__.CounterexampleHandler._solve_end_to_end_callback", "halmos.solve.solve_end_to_end",
                             "halmos.solve.refine", "halmos.solve.is_model_valid", "halmos.solve.parse_model_str",
                             "halmos.solve.parse_const_value"]
    run.assumptions = ["paths of the grammar use no hash/gas/precompile abstraction over symbolic data",
                       "replay uses the canonical ABI encoding of the reported values (functions read through head offsets)"]
    stats = e2echeck.run_suite(run, ("C04",), n)
    run.extra.update(stats)
    run.extra["rule"] = ("one obligation per counterexample marked valid: concrete replay on the reference EVM, and "
                         "equality with the independently re-parsed solver output")
    if not stats.get("valid_cex"):
        run.harness_error(f"vacuity: no valid counterexample produced {stats}")


if __name__ == "__main__":
    common.guarded_main("C04", "proof", main, generic_replay=True)
