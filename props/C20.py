"""C20 — tests are isolated from each other and results are deterministic (DESIGN §1 C20).

Contracts with 2-4 tests (generated guarded-failure tests, hand-made pairs built to interfere through setUp state,
keccak registries, concretisation maps and frontier solvers, plus an invariant test) are run through the real
run_contract: alone, in every order (<= 4! orders, subsets), twice in one process, across two different contracts in one
process, and with `halmos.utils.uid` (the randomness source of symbol names) replaced by adversarial stubs (constant
suffix / counter).  For every test:
  * verdict, number of counterexamples and the counterexample values (modulo symbol suffixes) are identical in all runs;
  * the path sets of two runs are equivalent: after eliminating helper variables and normalising suffixes, the solver
    proves OR(PC of run A) <=> OR(PC of run B) and, for every overlapping pair of paths, the same halting class and output.
The second group is the solver-decided part; the first compares the observable results of the real tool.
"""

from __future__ import annotations

import contextlib
import itertools
import os
import re
import sys

sys.path.insert(0, os.path.dirname(os.path.dirname(os.path.abspath(__file__))))

import z3  # noqa: E402

from lib import bisim, common, e2e, e2egen, exact, portfolio  # noqa: E402

UID_RE = re.compile(r"_[0-9a-f]{7}(?=(_\d\d)?$|_)")


def norm_name(n: str) -> str:
    return UID_RE.sub("_U", n)


# ---------------------------------------------------------------------------------------------------------------------
def handmade():
    out = []
    cd = e2e.arg
    # (1) setUp leaves a symbolic (GAS-derived) word in storage; test_a learns it equals 64 on one branch; test_b uses it
    #     as a memory offset (stuck unless concretised): b must behave the same whether or not a ran before
    setup = ["GAS", ("PUSH", 0xFF), "AND", "PUSH0", "SSTORE"]
    ta = ["PUSH0", "SLOAD", ("PUSH", 64), "EQ", ("PUSHL", "t"), "JUMPI", "STOP", ("LABEL", "t"), ("PUSH", 1), ("PUSH", 64), "MSTORE", "STOP"]
    tb = [("PUSH", 1), "PUSH0", "SLOAD", "MSTORE", "STOP"]
    out.append(("symstate", e2e.Spec("SymState", fns=[("setUp()", setup), ("check_a()", ta), ("check_b()", tb)]), ()))
    # (2) test_a hashes (5 . 2) at runtime; test_b stores through the literal constant keccak(5 . 2) and reads m[5] back
    from lib import gen

    hk = gen.keccak_int(gen._k32(5) + gen._k32(2))

    def mp(p, key):
        return key + ["PUSH0", "MSTORE", ("PUSH", p), ("PUSH", 32), "MSTORE", ("PUSH", 64), "PUSH0", "SHA3"]

    ta = [("PUSH", 9)] + mp(2, [("PUSH", 5)]) + ["SSTORE"] + mp(2, [("PUSH", 5)]) + ["SLOAD", ("PUSH", 9), "EQ", ("PUSHL", "ok"), "JUMPI"] + e2e.panic(1) + [("LABEL", "ok"), "STOP"]
    tb = [("PUSH", 7), ("PUSH", hk, 32), "SSTORE"] + mp(2, cd(0)) + ["SLOAD", ("PUSH", 7), "EQ", ("PUSHL", "bad"), "JUMPI", "STOP", ("LABEL", "bad")] + e2e.panic(1)
    out.append(("hashreg", e2e.Spec("HashReg", fns=[("check_a()", ta), ("check_b(uint256)", tb)]), ()))
    # (3) sibling-branch variant of (2) inside one test: one arm hashes, the other uses the constant
    ts = cd(1) + [("PUSHL", "h"), "JUMPI", ("PUSH", 7), ("PUSH", hk, 32), "SSTORE"] + mp(2, cd(0)) + [
        "SLOAD", ("PUSH", 7), "EQ", ("PUSHL", "bad"), "JUMPI", "STOP", ("LABEL", "h")] + mp(2, [("PUSH", 5)]) + ["POP", "STOP", ("LABEL", "bad")] + e2e.panic(1)
    out.append(("hashsib", e2e.Spec("HashSib", fns=[("check_s(uint256,uint256)", ts), ("check_t(uint256,uint256)", ts)]), ()))
    # (3b) two tests sign the same (key, digest): the signature constraints must be available in both
    def sign_test():
        it = e2e.call_cheat("sign(uint256,bytes32)", [cd(0), cd(1)], ret_words=3) + ["POP"]
        it += cd(1) + [("PUSH", 0x200), "MSTORE", ("PUSH", 0x80), "MLOAD", ("PUSH", 0x220), "MSTORE", ("PUSH", 0xA0), "MLOAD", ("PUSH", 0x240), "MSTORE",
                      ("PUSH", 0xC0), "MLOAD", ("PUSH", 0x260), "MSTORE", ("PUSH", 32), ("PUSH", 0x300), ("PUSH", 128), ("PUSH", 0x200), ("PUSH", 1),
                      "GAS", "STATICCALL", "POP"]
        it += e2e.call_cheat("addr(uint256)", [cd(0)], ret_words=1) + ["POP", ("PUSH", 0x80), "MLOAD", ("PUSH", 0x300), "MLOAD", "EQ", ("PUSHL", "ok"), "JUMPI"]
        return it + e2e.panic(1) + [("LABEL", "ok"), "STOP"]

    out.append(("signpair", e2e.Spec("SignPair", fns=[("check_a(uint256,bytes32)", sign_test()), ("check_b(uint256,bytes32)", sign_test())]), ()))
    # (4) state written by one test must not be visible to the next (storage, transient storage, balance)
    tw = [("PUSH", 5), ("PUSH", 3), "SSTORE", ("PUSH", 5), ("PUSH", 3), "TSTORE", "STOP"]
    tr = [("PUSH", 3), "SLOAD", ("PUSH", 3), "TLOAD", "ADD", ("PUSHL", "bad"), "JUMPI", "STOP", ("LABEL", "bad")] + e2e.panic(1)
    out.append(("statewrite", e2e.Spec("StateW", fns=[("setUp()", [("PUSH", 1), "PUSH0", "SSTORE"]), ("check_w()", tw), ("check_r()", tr)]), ()))
    # (5) invariant tests: two invariants over one target, frontier states cached between them
    import importlib.util

    spec = importlib.util.spec_from_file_location("C15", os.path.join(os.path.dirname(__file__), "C15.py"))
    C15 = importlib.util.module_from_spec(spec)
    spec.loader.exec_module(C15)
    tfns = [(s, C15.POOL[s]) for s in ("inc()", "setY(uint256)", "seed(uint256)")] + C15.GETTERS
    target = e2e.Spec("Tgt", fns=tfns)
    inv_a = C15.INVARIANTS["x!=K"](2)
    inv_b = C15.INVARIANTS["x+y!=K"](7)
    inv_c = C15.INVARIANTS["y!=K"](10)
    t = e2e.Spec("InvPair", fns=[("setUp()", e2e.create_from_data("tgt", store_slot=0)), ("invariant_a()", inv_a), ("invariant_b()", inv_b),
                                 ("invariant_c()", inv_c)], data={"tgt": target.creation()})
    out.append(("invpair", t, (target,)))
    # (6) a symbolic branch taken in one invariant check must not constrain later frontier states (setA(5); setB(7))
    sa = e2e.arg(0) + ["PUSH0", "SSTORE"]
    sb = e2e.arg(0) + [("PUSH", 1), "SSTORE"]
    tgt2 = e2e.Spec("AB", fns=[("setA(uint256)", sa), ("setB(uint256)", sb)] + C15.GETTERS)
    inv_ab = C15.fail_if(C15.get("x()") + [("PUSH", 5), "EQ"] + C15.get("y()") + [("PUSH", 7), "EQ", "AND"])
    t2 = e2e.Spec("InvAB", fns=[("setUp()", e2e.create_from_data("tgt", store_slot=0)), ("invariant_ab()", inv_ab),
                                ("invariant_a5()", C15.fail_if(C15.get("x()") + [("PUSH", 6), "GT"] + C15.get("x()") + [("PUSH", 4), "LT", "AND"]))],
                  data={"tgt": tgt2.creation()})
    out.append(("invab", t2, (tgt2,)))
    # (7) a function-level annotation belongs to its own test: check_a narrows the Panic codes to 0x11, check_b relies on
    # the default (Panic(1) is a failure), check_c widens the loop bound
    tb7 = e2e.arg(0) + [("PUSH", 5), "EQ", ("PUSHL", "bad"), "JUMPI", "STOP", ("LABEL", "bad")] + e2e.panic(1)
    out.append(("annot", e2e.Spec("Annot", fns=[("check_a()", ["STOP"]), ("check_b(uint256)", tb7), ("check_c(uint256)", list(tb7))],
                                  devdoc={"check_a()": "--panic-error-codes 0x11", "check_c(uint256)": "--loop 5"}), ()))
    # (8) block fields set by cheatcodes belong to the transaction that set them: setUp warps to 1000, check_a warps on,
    # check_b fails only at timestamp 1000 (i.e. from the post-setUp state)
    warp = lambda v: e2e.call_cheat("warp(uint256)", [[("PUSH", v)]]) + ["POP"]  # noqa: E731
    tb8 = ["TIMESTAMP", ("PUSH", 1000), "EQ"] + e2e.arg(0) + [("PUSH", 7), "EQ", "AND", ("PUSHL", "bad"), "JUMPI", "STOP", ("LABEL", "bad")] + e2e.panic(1)
    roll = e2e.call_cheat("roll(uint256)", [[("PUSH", 55)]]) + ["POP"]
    tc8 = ["NUMBER", ("PUSH", 55), "EQ", ("PUSHL", "bad"), "JUMPI", "STOP", ("LABEL", "bad")] + e2e.panic(1)
    out.append(("blockenv", e2e.Spec("BlockEnv", fns=[("setUp()", warp(1000)), ("check_a()", warp(2000) + roll + ["STOP"]), ("check_b(uint256)", tb8),
                                                      ("check_c()", tc8)]), ()))
    return out


# ---------------------------------------------------------------------------------------------------------------------
class PathLog:
    def __init__(self):
        self.by_fn = {}

    @contextlib.contextmanager
    def capture(self):
        import halmos.__main__ as hm

        real = hm.run_message
        log = self

        def wrapped(ctx, sevm, message, dyn_params):
            fn = ctx.info.sig
            for ex in real(ctx, sevm, message, dyn_params):
                try:
                    out = ex.context.output
                    data = None
                    if out.data is not None:
                        from lib import driver

                        data = driver.bytevec_bytes(out.data)
                    log.by_fn.setdefault(fn, []).append((list(ex.path.conditions.keys()), type(out.error).__name__, data))
                except Exception:
                    log.by_fn.setdefault(fn, []).append(None)
                yield ex

        hm.run_message = wrapped
        try:
            yield
        finally:
            hm.run_message = real


@contextlib.contextmanager
def uid_stub(mode):
    import halmos.calldata as hc
    import halmos.cheatcodes as hch
    import halmos.sevm as hs
    import halmos.utils as hu

    if mode is None:
        yield
        return
    cnt = itertools.count()
    fn = (lambda: "aaaaaaa") if mode == "const" else (lambda: f"{next(cnt) % (1 << 28):07x}")
    mods = [m for m in (hu, hc, hch, hs) if hasattr(m, "uid")]
    import halmos.__main__ as hm

    if hasattr(hm, "uid"):
        mods.append(hm)
    olds = [(m, m.uid) for m in mods]
    for m in mods:
        m.uid = fn
    try:
        yield
    finally:
        for m, o in olds:
            m.uid = o


def observe(spec, others, funsigs, uid_mode=None, **over):
    log = PathLog()
    with uid_stub(uid_mode), log.capture():
        o = e2e.run(spec, others=others, funsigs=list(funsigs), solver_timeout_assertion=60000, **over)
    res = {}
    for r in o.results:
        models = sorted(tuple(sorted((norm_name(n), v.value) for n, v in pm.model.items())) + (("valid", pm.is_valid),)
                        for pm in (r.models or []))
        res[r.name] = dict(exitcode=r.exitcode, num_models=r.num_models, models=models, num_paths=r.num_paths)
    return res, log.by_fn, o


def rename(exprs):
    """normalise uid suffixes of the free constants; returns (exprs', clash: bool)"""
    consts = portfolio.free_consts(exprs)
    subs, seen, clash = [], {}, False
    for c in consts:
        n = norm_name(str(c))
        if n in seen and not seen[n].eq(c):
            clash = True
        seen.setdefault(n, c)
        subs.append((c, z3.Const(n, c.sort())))
    return ([z3.substitute(e, *subs) for e in exprs] if subs else list(exprs)), clash


def path_formulas(paths):
    """[(core formula, kind, data bytes)] with helper variables eliminated and names normalised"""
    out, clash = [], False
    for p in paths:
        if p is None:
            return None, True
        conds, kind, data = p
        n = bisim.normalize_pc(conds)
        parts = [exact.inline(c) for c in n.core + n.assumptions]
        items = parts + (list(data) if data else [])
        ren, cl = rename(items)
        clash |= cl
        core = z3.And(*ren[:len(parts)]) if parts else z3.BoolVal(True)
        out.append((core, kind, ren[len(parts):]))
    return out, clash


def compare_paths(run, cls, ident, key, A, B, cap):
    fa, ca = path_formulas(A)
    fb, cb = path_formulas(B)
    if fa is None or fb is None or ca or cb:
        run.inconc(cls, ident, "path snapshot unavailable or suffix normalisation clashes")
        return
    if not fa and not fb:
        run.ok(cls, ident, nontrivial=False)
        return
    ora, orb = z3.Or(*[f for f, _, _ in fa]) if fa else z3.BoolVal(False), z3.Or(*[f for f, _, _ in fb]) if fb else z3.BoolVal(False)
    res = portfolio.solve([z3.Xor(ora, orb)], timeout=cap)
    run.note_solver(res)
    if res.status == "sat":
        run.violation(cls, key, f"{ident}: the sets of paths explored in two runs of the same test are not equivalent "
                      f"(an input is covered by one run only; model {dict(list(res.model.items())[:4])})", {"ident": ident})
        return
    if res.status != "unsat":
        run.inconc(cls, ident, f"solver {res.status} on path-set equivalence")
        return
    # overlapping pairs agree on halting class and output
    for (f1, k1, d1) in fa:
        for (f2, k2, d2) in fb:
            if k1 == k2 and (d1 is None) == (d2 is None) and (d1 is None or len(d1) == len(d2)):
                if not d1:
                    continue
                diff = z3.Or(*[x != y for x, y in zip(d1, d2)])
                q = [f1, f2, diff]
            else:
                q = [f1, f2]
            r = portfolio.solve(q, timeout=cap)
            run.note_solver(r)
            if r.status == "sat":
                run.violation(cls, key, f"{ident}: the same input ends differently in two runs of the same test ({k1} vs {k2})",
                              {"ident": ident, "model": {k: str(v) for k, v in list(r.model.items())[:6]}})
                return
            if r.status != "unsat":
                run.inconc(cls, ident, f"solver {r.status} on a path pair")
                return
    run.ok(cls, ident)


def same(a, b):
    # counterexamples are compared by the (normalised) variables they assign and their validity label; the concrete values a
    # solver picks for under-constrained variables may legitimately differ between two equivalent queries
    def shape(r):
        return sorted(tuple(sorted(n for n, _ in m[:-1])) + (m[-1],) for m in r["models"])

    return a["exitcode"] == b["exitcode"] and a["num_models"] == b["num_models"] and shape(a) == shape(b)


def check_contract(arg):
    name, spec, others, tier = arg
    rec = common.Recorder(tier=tier)
    cap = 20 if tier == "quick" else 60
    tests = [s for s in spec.sigs() if re.match(r"^(check|test|invariant)_", s)]
    over = dict(invariant_depth=2)
    try:
        # baseline: every test alone (fresh registries are not available in-process; "alone" = the only selected test)
        base, base_paths = {}, {}
        for t in tests:
            res, paths, o = observe(spec, others, [t], **over)
            if t not in res:
                rec.inconc("results", f"{name}:{t}", f"no result alone: {o.warnings[:1]}")
                continue
            base[t], base_paths[t] = res[t], paths.get(t, [])
        runs = []
        perms = list(itertools.permutations(tests)) if len(tests) <= 3 else list(itertools.permutations(tests))[::4]
        for order in perms:
            runs.append(("order:" + ">".join(x.split("(")[0] for x in order), order, None))
        for sub in itertools.combinations(tests, 2) if len(tests) > 2 else []:
            runs.append(("subset:" + "+".join(x.split("(")[0] for x in sub), sub, None))
        runs.append(("repeat", tuple(tests) , None))
        runs.append(("uid-const", tuple(tests), "const"))
        runs.append(("uid-counter", tuple(tests), "counter"))
        # --early-exit: the executor shutdown triggered by one test's counterexample must not affect the next test
        ee_base = {}
        for t in tests:
            r1, _, _ = observe(spec, others, [t], early_exit=True, **over)
            if t in r1:
                ee_base[t] = r1[t]
        for order in (tuple(tests), tuple(reversed(tests))):
            res, _, o = observe(spec, others, order, early_exit=True, **over)
            for t in order:
                ident = f"{name}:{t} [early-exit:{'>'.join(x.split('(')[0] for x in order)}]"
                if t not in ee_base:
                    continue
                # with --early-exit the number of reported counterexamples may vary with solver timing; the verdict may not
                if t in res and res[t]["exitcode"] == ee_base[t]["exitcode"]:
                    rec.ok("verdict-stable/early-exit", ident)
                else:
                    res2, _, _ = observe(spec, others, order, early_exit=True, **over)
                    alone2, _, _ = observe(spec, others, [t], early_exit=True, **over)
                    if t in alone2 and (t not in res2 or res2[t]["exitcode"] != alone2[t]["exitcode"]):
                        rec.violation("verdict-stable/early-exit", f"{name}/{t.split('(')[0]}/early-exit",
                                      f"{ident}: exit code {res2[t]['exitcode'] if t in res2 else 'missing'} differs from the run alone "
                                      f"{alone2[t]['exitcode']}", {"ident": ident})
                    else:
                        rec.inconc("verdict-stable/early-exit", ident, "difference did not reproduce on re-run")
        for label, order, uidm in runs:
            res, paths, o = observe(spec, others, order, uid_mode=uidm, **over)
            for t in order:
                ident = f"{name}:{t} [{label}]"
                if t not in base:
                    continue
                if t not in res:
                    rec.violation("verdict-stable", f"{name}/{t.split('(')[0]}/missing", f"{ident}: no result although the test ran alone "
                                  f"with exit code {base[t]['exitcode']}", {"ident": ident})
                    continue
                if same(res[t], base[t]):
                    rec.ok("verdict-stable", ident)
                else:
                    # re-run both once more before reporting (solver timing must not be mistaken for interference)
                    res2, _, _ = observe(spec, others, order, uid_mode=uidm, **over)
                    alone2, _, _ = observe(spec, others, [t], **over)
                    if t in res2 and t in alone2 and not same(res2[t], alone2[t]):
                        rec.violation("verdict-stable", f"{name}/{t.split('(')[0]}/{label.split(':')[0]}",
                                      f"{ident}: exit code / counterexamples {brief(res2[t])} differ from the run alone {brief(alone2[t])}",
                                      {"ident": ident, "run": brief(res2[t]), "alone": brief(alone2[t])})
                    else:
                        rec.inconc("verdict-stable", ident, "difference did not reproduce on re-run")
                if not t.startswith("invariant_") and (label.startswith("order") or label.startswith("uid")):
                    compare_paths(rec, "paths-equivalent", ident, f"{name}/{t.split('(')[0]}/paths", base_paths.get(t, []), paths.get(t, []), cap)
    except Exception as e:
        import traceback

        rec.harness_error(f"{name}: {type(e).__name__}: {e} | {traceback.format_exc().strip().splitlines()[-2][:160]}")
    return rec.events, {"contracts": 1, "tests": len(tests)}


def brief(r):
    return {"exitcode": r["exitcode"], "num_models": r["num_models"], "models": [str(m)[:120] for m in r["models"][:2]]}


def _baseline(idx):
    nm, sp, oth = handmade()[idx]
    tests = [s for s in sp.sigs() if s.startswith("invariant_")]
    res, _, _ = observe(sp, oth, tests, invariant_depth=2)
    return res


def cross_contract(run):
    """two different build outputs in one process (singletons must not leak): each contract's results in the sequence
    A, B, A, B equal its results in a fresh process"""
    hm = handmade()
    base = common.parallel_map(_baseline, [5, 6], 2)  # forked children: pristine singletons
    if any(isinstance(b, tuple) and b and b[0] == "error" for b in base):
        run.inconc("cross-contract", "baseline", "baseline worker failed")
        return
    seq = [5, 6, 5, 6]
    for pos, idx in enumerate(seq):
        nm, sp, oth = hm[idx]
        tests = [s for s in sp.sigs() if s.startswith("invariant_")]
        res, _, o = observe(sp, oth, tests, invariant_depth=2)
        b = base[idx - 5]
        for t in tests:
            ident = f"{nm}:{t} as run #{pos + 1} of the sequence invpair,invab,invpair,invab in one process"
            if t not in b:
                run.inconc("cross-contract", ident, "no baseline result")
            elif t in res and same(b[t], res[t]):
                run.ok("cross-contract", ident)
            else:
                run.violation("cross-contract", f"cross/{nm}/run{pos + 1}", f"{ident}: {brief(res[t]) if t in res else 'no result'} vs fresh process "
                              f"{brief(b[t])} ({[m for _, m in o.warnings][:1]})", {"ident": ident})


# ---------------------------------------------------------------------------------------------------------------------
# one `_main` run over several test contracts that share one build output (the target's artifact object is shared)
# ---------------------------------------------------------------------------------------------------------------------
def _addr_array(addrs):
    it = [("PUSH", 0x20), "PUSH0", "MSTORE", ("PUSH", len(addrs)), ("PUSH", 0x20), "MSTORE"]
    return it + [("PUSH", 0x40), "PUSH0", "RETURN"]


def _selectors_getter(sigs):
    """FuzzSelector[] with one entry: (target in slot 0, sigs)"""
    words = [0x20, 1, 0x20, "ADDR", 0x40, len(sigs)] + [int.from_bytes(e2e.selector(x), "big") << 224 for x in sigs]
    it = []
    for k, w in enumerate(words):
        it += ([("PUSH", 0), "SLOAD"] if w == "ADDR" else [("PUSH", w, 32) if w >= (1 << 200) else ("PUSH", w)]) + [("PUSH", 32 * k), "MSTORE"]
    return it + [("PUSH", 32 * len(words)), "PUSH0", "RETURN"]


def box_specs(first_filter: str):
    """Box{a,b; setA; setB}; two invariant test contracts T1, T2 deploying a Box (same address in both) with different
    targetSelectors: the one named in `first_filter` goes to T1.  Both check box.a() != 5."""
    ret = [("PUSH", 0x80), "MSTORE", ("PUSH", 32), ("PUSH", 0x80), "RETURN"]
    box = e2e.Spec("Box", fns=[("setA(uint256)", e2e.arg(0) + ["PUSH0", "SSTORE"]), ("setB(uint256)", e2e.arg(0) + [("PUSH", 1), "SSTORE"]),
                               ("a()", ["PUSH0", "SLOAD"] + ret), ("b()", [("PUSH", 1), "SLOAD"] + ret)])
    inv = e2e.ext_call([("PUSH", 0), "SLOAD"], "a()", static=True) + ["POP", ("PUSH", 0x80), "MLOAD", ("PUSH", 5), "EQ", ("PUSHL", "bad"), "JUMPI",
                                                                       "STOP", ("LABEL", "bad")] + e2e.panic(1)
    other = "setB(uint256)" if first_filter == "setA(uint256)" else "setA(uint256)"
    specs = []
    for name, flt in (("T1", first_filter), ("T2", other)):
        fns = [("setUp()", e2e.create_from_data("box", store_slot=0)), ("invariant_a()", inv),
               ("targetSenders()", _addr_array([])), ("excludeSenders()", _addr_array([])), ("targetContracts()", _addr_array([])),
               ("excludeContracts()", _addr_array([])), ("targetSelectors()", _selectors_getter([flt])), ("excludeSelectors()", _addr_array([]))]
        specs.append(e2e.Spec(name, fns=fns, data={"box": box.creation()}))
    return specs, box


def _main_results(arg):
    first_filter, which = arg
    specs, box = box_specs(first_filter)
    sel = [sp for sp in specs if sp.name in which]
    o = e2e.run_main(sel + [box], ["--invariant-depth", "2", "--solver-timeout-assertion", "60000"])
    return {r.name + "@" + str(k): r.exitcode for k, r in enumerate(o.results)}, (repr(o.exception) if o.exception else None), \
        {ln.split(":")[-1].split()[0]: None for ln in o.stdout.splitlines() if ln.startswith("Running")}, o.stdout[-1500:]


def shared_build_output(run):
    """T1 and T2 in ONE _main run (one parsed build output) vs each alone in a fresh process"""
    for first in ("setA(uint256)", "setB(uint256)"):
        base = common.parallel_map(_main_results, [(first, ("T1",)), (first, ("T2",))], 2)
        if any(isinstance(b, tuple) and b and b[0] == "error" for b in base):
            run.inconc("cross-contract", f"shared-build/{first}", "baseline worker failed")
            continue
        both = common.parallel_map(_main_results, [(first, ("T1", "T2"))], 1)[0]
        if isinstance(both, tuple) and both and both[0] == "error":
            run.harness_error("shared-build worker crashed: " + both[1].strip().splitlines()[-1])
            continue
        alone = [list(b[0].values()) for b in base]
        together = list(both[0].values())
        ident = f"T1[{first.split('(')[0]}],T2 in one _main run vs each alone"
        if any(b[1] for b in base) or both[1] or len(together) != 2 or any(len(a) != 1 for a in alone):
            run.inconc("cross-contract", ident, f"runs incomplete: {[b[1] for b in base]} {both[1]} {together} {alone}")
        elif together == [alone[0][0], alone[1][0]]:
            run.ok("cross-contract", ident)
            if sorted(together) != [0, 1]:
                run.harness_error(f"shared-build vacuity: expected one FAIL and one PASS, got {together}")
        else:
            again = common.parallel_map(_main_results, [(first, ("T1", "T2"))], 1)[0]
            if list(again[0].values()) == together:
                run.violation("cross-contract", f"cross/shared-build/{first.split('(')[0]}-first",
                              f"{ident}: exit codes {together} in one run, {[alone[0][0], alone[1][0]]} when each contract runs alone "
                              "(same artifacts, same options)", {"first_filter": first, "together": together, "alone": alone, "stdout": both[3]})
            else:
                run.inconc("cross-contract", ident, "difference did not reproduce")


def _path_hist(job):
    import logging

    from lib import pathcheck

    logging.disable(logging.WARNING)
    seed, steps = job
    h = pathcheck.Hist(seed, steps)
    pr = h.run()
    return seed, steps, pr, h.ops, h.queries


def path_discipline(run):
    """the real Path class under operation histories (lib/pathcheck.py): solver mirror, conditions, no leak into a
    finished parent"""
    n, steps = (48, 40) if run.tier == "quick" else (900, 60)
    jobs = [(f"c20-path-{run.seed}-{i}", steps) for i in range(n)]
    seen = set()
    nq = 0
    for res in common.parallel_map(_path_hist, jobs, 8):
        if isinstance(res, tuple) and res and res[0] == "error":
            run.harness_error("path-discipline worker crashed: " + res[1].strip().splitlines()[-1])
            continue
        seed, st, problems, ops, q = res
        nq += q
        real = [p for p in problems if p["kind"] != "unknown"]
        if not problems:
            run.ok("path-discipline", seed)
        elif not real:
            run.inconc("path-discipline", seed, "equivalence query undecided: " + problems[0]["detail"][:200])
        else:
            p0 = real[0]
            key = f"path/{p0['kind']}/{p0['what']}"
            if key in seen:
                continue
            seen.add(key)
            run.violation("path-discipline", key, f"history {seed} step {p0['step']} ({p0['what']}): {p0['detail'][:600]}",
                          {"seed": seed, "steps": st, "step": p0["step"], "ops": [list(o) for o in ops[: p0["step"] + 8]]})
    run.extra["path_discipline"] = {"histories": n, "steps": steps, "equivalence_queries": nq}


def main(run: common.Run):
    tier = run.tier
    n = 2 if tier == "quick" else 40
    run.bounds = {"handmade_contracts": 8, "generated_contracts": n, "tests_per_contract": "2..4", "orders": "all permutations (<= 3 tests) / every 4th",
                  "uid_stubs": ["const", "counter"], "solver_cap_s": 20 if tier == "quick" else 60}
    run.functions_encoded = ["halmos.__main__.run_contract / run_tests / run_test / run_message", "halmos.sevm.Path.extend_path / branch",
                             "halmos.sevm.KeccakRegistry.copy", "halmos.sevm.Exec (setup_ex reuse)", "halmos.utils.uid", "halmos.mapper.BuildOut",
                             "halmos.sevm.Path.branch / activate / append / extend_path / slice (operation histories)"]
    run.assumptions = ["'alone' = the only selected test of a run_contract call in the same process"]
    items = [(nm, sp, oth, tier) for nm, sp, oth in handmade()]
    for k in range(n):
        g = e2egen.TG(f"c20-{run.seed}-{k}")
        spec, metas = g.contract(f"G{k}", nfn=3)
        items.append((f"gen{k}", spec, (), tier))
    total = {}
    for res in common.parallel_map(check_contract, items, 6):
        if res and res[0] == "error":
            run.harness_error("worker crashed: " + res[1].strip().splitlines()[-1])
            continue
        common.replay_events(run, res[0])
        for k, v in res[1].items():
            total[k] = total.get(k, 0) + v
    cross_contract(run)
    shared_build_output(run)
    path_discipline(run)
    run.extra.update(total)
    run.extra["rule"] = "one obligation per (test, run variant): equality of observable results; plus one solver-decided path-set equivalence per (regular test, order/uid variant)"


if __name__ == "__main__":
    common.guarded_main("C20", "proof", main, generic_replay=True)
