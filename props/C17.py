"""C17 — solver subprocess lifecycle is safe under every schedule.

Route A, bounded model checking.  lib/procbmc.py reads processes.py (lib.common.REPO_SRC) with `ast` at run time and
turns PopenFuture.start/.run/cancel/is_running/result/exception/done and PopenExecutor.submit/shutdown/_join into
per-thread control-flow graphs of atomic (statement-level) steps over a fixed state vocabulary; lib/procenc.py unrolls
them over a *symbolic schedule* (one bit-vector thread id + outcome index per step, plus symbolic environment: does a
job have a timeout, does Popen raise, does the process ignore SIGTERM, when does a process exit, when does the timeout
fire) and an SMT solver decides each obligation for every schedule within the bound.  Every satisfying schedule is
replayed on the REAL classes under a deterministic line-level scheduler (lib/procreplay.py) and is a violation only if
the real classes reproduce the bad end state.  The same replayer validates the extracted model (translation
validation) on solver-generated schedules.  A sequential obligation runs the real solve_low_level with a stub solver.
"""

from __future__ import annotations

import json
import multiprocessing as mp
import os
import shutil
import sys
import tempfile
import time
import traceback

sys.path.insert(0, os.path.dirname(os.path.dirname(os.path.abspath(__file__))))

from lib import common  # noqa: E402
from lib.procbmc import P_KILL, P_RUN, X_TIMEOUT, Scenario, Unsupported, extract  # noqa: E402

SRC = common.REPO_SRC

KEY_TOCTOU = "submit-after-shutdown/toctou"
KEY_EARLY = "cancel-before-popen/running-after-shutdown"


# ----------------------------------------------------------------------------------------------------------------
# scenarios (an enumerated bound of the claim); inside each, schedule and environment are symbolic
# ----------------------------------------------------------------------------------------------------------------
def SUB(j):
    return ("submit", j)


def RES(j):
    return ("result", j)


def SD(w):
    return ("shutdown", w)


def scenarios(tier):
    """(scenario, unrolling depth) per tier.  quick: depth 24/20(22)/18 for 1/2/3 jobs; thorough: 36/30/26"""
    both = [
        Scenario("j1-main-wait", 1, [("M", [SUB(0), SD(True)])]),
        Scenario("j1-main-nowait", 1, [("M", [SUB(0), SD(False), RES(0)])]),
        Scenario("j1-cb-nowait", 1, [("M", [SUB(0), RES(0)])], {0: [SD(False)]}),
        Scenario("j1-race-nowait", 1, [("A", [SUB(0), RES(0)]), ("B", [SD(False)])]),
        Scenario("j1-race-wait", 1, [("A", [SUB(0), RES(0)]), ("B", [SD(True)])]),
        Scenario("j1-late-submit", 1, [("A", [SD(False)]), ("B", [SUB(0), RES(0)])]),
        Scenario("j2-main-wait", 2, [("M", [SUB(0), SUB(1), SD(True)])]),
        Scenario("j2-earlyexit", 2, [("A", [SUB(0), RES(0), SD(False)]), ("B", [SUB(1), RES(1)])]),
        Scenario("j2-cb-nowait", 2, [("M", [SUB(0), SUB(1), SD(True)])], {0: [SD(False)], 1: [SD(False)]}),
        Scenario("j2-seq-late", 2, [("M", [SUB(0), SD(False), SUB(1)])]),
        Scenario("j2-cb-wait", 2, [("M", [SUB(0), SUB(1), RES(0), RES(1)])], {0: [SD(True)]}),
        Scenario("j3-earlyexit", 3, [("A", [SUB(0), RES(0), SD(False)]), ("B", [SUB(1), RES(1)]),
                                     ("C", [SUB(2), RES(2)])]),
    ]
    more = [
        Scenario("j3-main-nowait", 3, [("M", [SUB(0), SUB(1), SUB(2), SD(False), RES(0), RES(1), RES(2)])]),
        Scenario("j1-two-shutdowns", 1, [("A", [SD(False)]), ("B", [SD(False)]), ("C", [SUB(0), RES(0)])]),
        Scenario("j1-direct-cancel", 1, [("A", [SUB(0), RES(0)]), ("B", [("cancel", 0), ("done", 0),
                                                                        ("exception", 0)])]),
        Scenario("j3-cb-nowait", 3, [("M", [SUB(0), SUB(1), SUB(2), SD(True)])], {0: [SD(False)]}),
        Scenario("j2-race-wait-nowait", 2, [("A", [SUB(0), RES(0)]), ("B", [SUB(1), SD(True)]), ("C", [SD(False)])]),
    ]
    depth = {"quick": {1: 24, 2: 20, 3: 18}, "thorough": {1: 36, 2: 30, 3: 26}}[tier]
    override = {("thorough", "j3-main-nowait"): 40, ("quick", "j2-earlyexit"): 22, ("quick", "j2-main-wait"): 30}
    scs = both if tier == "quick" else both + more
    return [(s, override.get((tier, s.name), depth[s.J])) for s in scs]


# ----------------------------------------------------------------------------------------------------------------
# queries
# ----------------------------------------------------------------------------------------------------------------
def predicates(e, m):
    import z3
    S = e.final()
    J = m.J
    term = e.quiescent(S, True)
    stuck = z3.Or([e.live(S, th) for th in m.threads]
                  + [z3.And(S[f"started{j}"], S[f"nset{j}"] != 1) for j in range(J)])
    qn = e.quiescent(S, False)
    run_after = lambda j: z3.And(S["sdret"], qn, S[f"proc{j}"] == P_RUN)  # noqa: E731
    P = {
        "reach-terminal": z3.And(term, z3.Not(stuck)),
        "reach-full": z3.And(term, z3.Not(stuck), *[z3.And(S[f"acc{j}"], S[f"done{j}"]) for j in range(J)]),
        "not-exhaustive": z3.And(e.tid[e.N - 1] != e.STUTTER, z3.Not(term)),
        "deadlock": z3.And(term, stuck),
        "twice": z3.Or([z3.UGE(S[f"nset{j}"], 2) for j in range(J)]),
        "timeout-lost": z3.Or([z3.And(S[f"tf{j}"], z3.Or(z3.And(S[f"done{j}"], S[f"exc{j}"] != X_TIMEOUT),
                                                         S[f"res{j}"] == 1, S[f"res{j}"] == 3)) for j in range(J)]),
        "late-accepted": z3.Or([z3.And(S[f"late{j}"], S[f"acc{j}"]) for j in range(J)]),
        "p3-toctou": z3.Or([z3.And(run_after(j), S[f"missed{j}"]) for j in range(J)]),
        "p3-early": z3.Or([z3.And(run_after(j), S[f"early{j}"], z3.Not(S[f"missed{j}"])) for j in range(J)]),
        "p3-other": z3.Or([z3.And(run_after(j), z3.Not(S[f"early{j}"]), z3.Not(S[f"missed{j}"])) for j in range(J)]),
        # shutdown(wait=True) has returned, nothing can move, and the solver process of an accepted job is still running
        "p3-wait": z3.Or([z3.And(S["sdretw"], qn, S[f"acc{j}"], S[f"proc{j}"] == P_RUN) for j in range(J)]),
    }
    P["safety"] = z3.Or(P["twice"], P["timeout-lost"], P["late-accepted"])
    return P


QUERY_CLASS = {"residual": "residual", "deadlock": "result-returns", "safety": "exactly-once/timeout-surfaces/no-late-submit",
               "p3-toctou": "no-running-after-shutdown", "p3-early": "no-running-after-shutdown",
               "p3-other": "no-running-after-shutdown", "p3-wait": "no-running-after-shutdown"}


def has_nowait(sc: Scenario):
    ops = [o for _, os_ in sc.clients for o in os_] + [o for os_ in sc.callbacks.values() for o in os_]
    return any(o == ("shutdown", False) for o in ops)


def reproduced(qname, m, wit, rep):
    """does the real end state show the bad condition the solver claimed?  -> (bool, description)"""
    if rep.get("status") != "ok":
        return False, "replay diverged: " + rep.get("reason", "?")
    from lib.procenc import compare_state
    diffs = compare_state(m, wit["final"], rep["state"])
    if diffs:
        return False, "real end state differs from the model: " + "; ".join(diffs[:4])
    st, pr = rep["state"], rep.get("probe_state", {})
    J = m.J
    if qname.startswith("p3-"):
        js = [j for j in range(J) if pr.get(f"proc{j}") == P_RUN]
        ok = bool(pr.get("sdretw" if qname == "p3-wait" else "sdret")) and bool(js)
        return ok, (f"shutdown(wait={qname == 'p3-wait'}) has returned, every thread is blocked or finished, simulated solver "
                    f"process of job {js} is still running (accepted={[pr.get(f'acc{j}') for j in js]}); threads "
                    f"still alive: {rep.get('probe_alive')}")
    if qname == "deadlock":
        clients = {f"client:{n}" for n, _ in m.sc.clients}
        blocked = sorted(clients - set(rep.get("probe_clients_finished", [])))
        undone = [j for j in range(J) if pr.get(f"started{j}") and pr.get(f"nset{j}") != 1]
        norun = all(pr.get(f"proc{j}") != P_RUN for j in range(J))
        return norun and bool(blocked or undone), f"no process running, blocked clients {blocked}, jobs without " \
                                                  f"exactly one result {undone}"
    if qname == "safety":
        tw = [j for j in range(J) if st[f"nset{j}"] >= 2]
        tl = [j for j in range(J) if wit["final"][f"tf{j}"] and ((st[f"done{j}"] and st[f"exc{j}"] != X_TIMEOUT)
                                                               or st[f"res{j}"] in (1, 3))]
        la = [j for j in range(J) if wit["final"][f"late{j}"] and st[f"acc{j}"]]
        return bool(tw or tl or la), f"set_result twice {tw}; timeout not surfaced {tl}; accepted after shutdown {la}"
    return False, "?"


def key_of(qname, m, wit):
    if qname == "p3-toctou":
        return KEY_TOCTOU
    if qname == "p3-early":
        return KEY_EARLY
    if qname == "p3-other":
        return f"running-after-shutdown/other/{m.sc.name}"
    if qname == "p3-wait":
        return f"running-after-shutdown/wait/{m.sc.name}"
    if qname == "deadlock":
        return f"result-blocks/{m.sc.name}"
    f = wit["final"]
    J = m.J
    if any(f[f"nset{j}"] >= 2 for j in range(J)):
        return f"set-result-twice/{m.sc.name}"
    if any(f[f"late{j}"] and f[f"acc{j}"] for j in range(J)):
        return f"submit-accepted-after-shutdown/{m.sc.name}"
    return f"timeout-not-surfaced/{m.sc.name}"


# ----------------------------------------------------------------------------------------------------------------
# work units (forked workers)
# ----------------------------------------------------------------------------------------------------------------
def short(wit):
    return [f"{s['thread']}@{s['line']}{'/' + s['label'] if s.get('label') else ''}" if s["kind"] == "thread"
            else f"exit(job{s['job']})" for s in wit["steps"]]


DEADLINE = [None]


def budget(tmo):
    """per-query time limit clipped to what is left of the tier's wall budget (<= 0: skip)"""
    if DEADLINE[0] is None:
        return tmo
    return min(tmo, DEADLINE[0] - time.time() - 12)


def one_query(m, e, P, sc_json, N, qname, tmo):
    from lib.procenc import replay_job, run_replay
    t0 = time.time()
    out = {"kind": "query", "scenario": sc_json["name"], "N": N, "q": qname}
    tmo = budget(tmo)
    if tmo < 8:
        out.update(status="skipped", wall=0.0)
        return out
    st, vals, dt, be = e.solve([P[qname]], timeout_s=tmo, inproc_ms=1000 if qname in ("p3-toctou", "p3-early") else 0)
    out.update(status=st, solver_s=dt, backend=be)
    if st == "sat":
        wit = e.witness(vals)
        job = replay_job(m, wit, SRC, probe=True)
        rep = run_replay(job)
        ok, desc = reproduced(qname, m, wit, rep)
        if not ok and rep.get("status") != "ok":   # one retry: a loaded machine can exceed the step time-out
            rep = run_replay(job)
            ok, desc = reproduced(qname, m, wit, rep)
        out.update(reproduced=ok, desc=desc, key=key_of(qname, m, wit), schedule=short(wit),
                   witness={"scenario": sc_json, "N": N, "query": qname, "consts": wit["consts"],
                            "steps": wit["steps"], "parked_init": wit["parked_init"], "final": wit["final"],
                            "real_probe_state": rep.get("probe_state"), "real_alive": rep.get("probe_alive")})
    out["wall"] = time.time() - t0
    return out


def unit_query(a):
    """one obligation query, or (qname == 'residual') the disjunction of the obligations that are expected to hold:
    `unsat` discharges all of them with one solver call, anything else falls back to one query per obligation"""
    sc_json, N, qname, tmo = a
    t0 = time.time()
    outs = []
    try:
        import z3

        from lib.procenc import Enc
        sc = Scenario.from_json(sc_json)
        m = extract(SRC, sc)
        e = Enc(m, N)
        P = predicates(e, m)
        if qname != "residual":
            return [one_query(m, e, P, sc_json, N, qname, tmo)]
        parts = ["safety", "deadlock"] + (["p3-other"] if has_nowait(sc) else [])
        t = budget(tmo)
        st = "skipped"
        if t >= 8:
            st, vals, dt, be = e.solve([z3.Or([P[q] for q in parts])], timeout_s=t, inproc_ms=0)
        if st == "unsat":
            for i, q in enumerate(parts):
                outs.append({"kind": "query", "scenario": sc_json["name"], "N": N, "q": q, "status": "unsat",
                             "solver_s": dt if i == 0 else 0.0, "backend": be if i == 0 else None, "joint": True,
                             "wall": time.time() - t0 if i == 0 else 0.0})
            return outs
        for q in parts:
            outs.append(one_query(m, e, P, sc_json, N, q, tmo))
        return outs
    except Unsupported as ex:
        return [{"kind": "query", "scenario": sc_json["name"], "N": N, "q": q, "status": "unsupported",
                 "reason": str(ex), "wall": 0.0} for q in ([qname] if qname != "residual" else
                                                           ["safety", "deadlock"] + (["p3-other"] if has_nowait(
                                                               Scenario.from_json(sc_json)) else []))]
    except Exception:
        return [{"kind": "query", "scenario": sc_json["name"], "N": N, "q": qname, "status": "error",
                 "reason": traceback.format_exc()[-600:], "wall": time.time() - t0}]


TV_VARIANTS = ["long-prefix", "timeout", "popen-raises", "rejected", "sigterm-ignored-kill",
               "killed-then-result", "exit-races-cancel"]


def unit_scenario(a):
    """extraction, vacuity/reachability twins and exhaustiveness of the bound for one scenario"""
    sc_json, N, tmo = a
    t0 = time.time()
    out = {"kind": "scenario", "scenario": sc_json["name"], "N": N, "solver_s": 0.0}
    tmo = max(10, budget(tmo))
    try:
        from lib.procenc import Enc
        m = extract(SRC, Scenario.from_json(sc_json))
        out.update(threads=len(m.threads), nodes=sum(len(t.nodes) for t in m.threads),
                   transitions=sum(len(n.outs) for t in m.threads for n in t.nodes.values()),
                   functions=sorted(m.functions), gate_lines=m.gate_lines())
        e = Enc(m, N)
        P = predicates(e, m)
        for q, t in (("reach-terminal", tmo), ("reach-full", min(tmo, 40)), ("not-exhaustive", min(tmo, 40))):
            st, mdl, dt, be = e.solve([P[q]], timeout_s=t)
            out[q] = st
            out["solver_s"] += dt
            if q == "reach-full" and st == "sat":
                out["complete"] = tv_replay(m, e.witness(mdl))
    except Unsupported as ex:
        out.update(status="unsupported", reason=str(ex))
    except Exception:
        out.update(status="error", reason=traceback.format_exc()[-600:])
    out["wall"] = time.time() - t0
    return out


def tv_replay(m, wit):
    from lib.procenc import compare_state, replay_job, run_replay
    job = replay_job(m, wit, SRC, probe=False)
    rep = run_replay(job)
    if rep.get("status") != "ok":
        rep = run_replay(job)
    diffs = compare_state(m, wit["final"], rep["state"]) if rep.get("status") == "ok" else []
    return dict(status="sat", steps=len(wit["steps"]), replay=rep.get("status"), reason=rep.get("reason", ""),
                diffs=diffs, match=rep.get("status") == "ok" and not diffs, schedule=short(wit))


def unit_tv(a):
    """translation validation: solver-generated schedules of several shapes are executed on the real classes under
    the deterministic scheduler; parked source lines after every step and the end state must match the model"""
    sc_json, N, names, tmo = a
    t0 = time.time()
    out = {"kind": "tv", "scenario": sc_json["name"], "N": N, "variants": {}, "solver_s": 0.0}
    try:
        import z3

        from lib.procenc import Enc
        m = extract(SRC, Scenario.from_json(sc_json))
        e = Enc(m, N)
        P = predicates(e, m)
        S = e.final()
        J = m.J
        half = e.tid[N // 2] != e.STUTTER
        cons = {
            "long-prefix": lambda: [e.tid[N - 1] != e.STUTTER],
            "timeout": lambda: [z3.Or([S[f"tf{j}"] for j in range(J)]), half],
            "popen-raises": lambda: [z3.Or([z3.And(e.consts[f"pfail{j}"], S[f"done{j}"]) for j in range(J)])],
            "rejected": lambda: [z3.Or([S[f"rej{j}"] for j in range(J)]), P["reach-terminal"]],
            "sigterm-ignored-kill": lambda: [z3.Or([z3.And(e.consts[f"igterm{j}"], S[f"proc{j}"] == P_KILL)
                                                    for j in range(J)])],
            "killed-then-result": lambda: [z3.Or([z3.And(S[f"proc{j}"] == P_KILL, S[f"res{j}"] != 0)
                                                  for j in range(J)])],
            "exit-races-cancel": lambda: [z3.Or([z3.And(S[f"proc{j}"] == 2, z3.Not(S[f"early{j}"]), S["swept"],
                                                        S[f"done{j}"]) for j in range(J)]), half],
        }
        for name in names:
            if budget(30) < 5:
                out["variants"][name] = {"status": "skipped"}
                continue
            st, mdl, dt, be = e.solve(cons[name](), timeout_s=min(tmo, 30), inproc_ms=3000)
            out["solver_s"] += dt
            out["variants"][name] = tv_replay(m, e.witness(mdl)) if st == "sat" else {"status": st}
    except Unsupported as ex:
        out.update(status="unsupported", reason=str(ex))
    except Exception:
        out.update(status="error", reason=traceback.format_exc()[-600:])
    out["wall"] = time.time() - t0
    return out


STUB = r'''
import os, signal, subprocess, sys, time
mode = os.environ.get("C17_STUB_MODE", "fast")
open(sys.argv[-1] + ".pid", "w").write(str(os.getpid()))
if mode == "ignore-term":
    signal.signal(signal.SIGTERM, signal.SIG_IGN)
if mode == "child":
    c = subprocess.Popen([sys.executable, "-c", "import time; time.sleep(60)"])
    open(sys.argv[-1] + ".cpid", "w").write(str(c.pid))
if mode != "fast":
    time.sleep(float(os.environ.get("C17_STUB_SLEEP", "60")))
print("unsat")
'''


def unit_seq(a):
    """real solve_low_level + real PopenExecutor/PopenFuture + a real (stub) solver process: a job that exceeds its
    time limit must come back as `unknown` (never `unsat`, which is what the stub would print) and be killed"""
    out = {"kind": "seq", "cases": []}
    d = tempfile.mkdtemp(prefix="c17seq")
    try:
        from pathlib import Path

        import psutil
        from z3 import unknown, unsat

        from halmos.sevm import SMTQuery
        from halmos.solve import PathContext, SolvingContext, solve_low_level
        from lib.e2e import mk_args
        stub = os.path.join(d, "stub.py")
        with open(stub, "w") as f:
            f.write(STUB)

        def gone(pid, wait_s=6.0):
            # a killed process needs a moment to leave the process table on a loaded machine: poll before judging
            if pid is None or pid <= 0:
                return True
            t_end = time.time() + wait_s
            while True:
                try:
                    if psutil.Process(pid).status() in (psutil.STATUS_ZOMBIE, psutil.STATUS_DEAD):
                        return True
                except psutil.NoSuchProcess:
                    return True
                if time.time() >= t_end:
                    return False
                time.sleep(0.1)
        cases = [("control-fast", "fast", 0, "0", unsat), ("control-no-timeout", "sleep", 0, "0.7", unsat),
                 ("timeout", "sleep", 3.0, "60", unknown), ("timeout-ignores-sigterm", "ignore-term", 3.0, "60", unknown),
                 ("timeout-with-child", "child", 3.0, "60", unknown)]
        for i, (name, mode, tmo, slp, want) in enumerate(cases):
            os.environ["C17_STUB_MODE"], os.environ["C17_STUB_SLEEP"] = mode, slp
            args = mk_args(solver_command=f"{sys.executable} {stub}", solver_timeout_assertion=tmo, cache_solver=False)
            dd = os.path.join(d, f"case{i}")
            os.makedirs(dd)
            ctx = PathContext(args=args, path_id=i, solving_ctx=SolvingContext(dump_dir=Path(dd)),
                              query=SMTQuery("(declare-const x Bool)\n(assert x)", []))
            t0 = time.time()
            so = solve_low_level(ctx)
            dt = time.time() - t0
            pidf = str(ctx.dump_file) + ".pid"
            pid = int(open(pidf).read()) if os.path.exists(pidf) else -1
            cpidf = str(ctx.dump_file) + ".cpid"
            cpid = int(open(cpidf).read()) if os.path.exists(cpidf) else None
            # the grandchild is part of the obligation only if it existed well before the time limit fired (a child
            # spawned while cancel() is listing the process tree is a real-OS race outside this sequential check)
            child_counts = cpid is not None and tmo and os.path.getmtime(cpidf) < t0 + tmo - 1.0
            time.sleep(0.1)
            left = []
            for pr in psutil.process_iter(["cmdline", "status"]):
                try:
                    if str(ctx.dump_file) in (pr.info["cmdline"] or []) and pr.info["status"] not in (
                            psutil.STATUS_ZOMBIE, psutil.STATUS_DEAD):
                        left.append(pr.pid)
                except Exception:
                    pass
            rec = {"case": name, "stub_started": pid > 0, "live_solver_processes_left": left,
                   "result": str(so.result), "returncode": so.returncode, "seconds": round(dt, 2),
                   "process_gone": gone(pid), "child_gone": None if cpid is None else gone(cpid),
                   "child_counts": bool(child_counts),
                   "ok": so.result == want and not left and gone(pid) and (not child_counts or gone(cpid))
                   and (want is unsat or (so.returncode == 124 and dt < tmo + 8))}
            if cpid and not gone(cpid):
                try:
                    os.kill(cpid, 9)
                except OSError:
                    pass
            ctx.solving_ctx.executor.shutdown(wait=False)
            out["cases"].append(rec)
    except Exception:
        out["error"] = traceback.format_exc()[-600:]
    finally:
        shutil.rmtree(d, ignore_errors=True)
    return out


def dispatch(a):
    return {"query": unit_query, "scenario": unit_scenario, "seq": unit_seq, "tv": unit_tv}[a[0]](a[1])


# ----------------------------------------------------------------------------------------------------------------
def do_replay_file(run, path):
    from lib.procenc import replay_job, run_replay
    blob = json.load(open(path))
    w = blob["witness"]
    m = extract(SRC, Scenario.from_json(w["scenario"]))
    rep = run_replay(replay_job(m, w, SRC, probe=True))
    ok, desc = reproduced(w["query"], m, w, rep)
    run.extra.update(states=sum(len(t.nodes) for t in m.threads),
                     transitions=sum(len(n.outs) for t in m.threads for n in t.nodes.values()),
                     traces_validated_against_impl=int(rep.get("status") == "ok"),
                     explanation="replay of one recorded schedule on the real classes")
    run.sample({"replayed": path, "reproduced": ok, "real": desc})
    print(f"replay {path}: {'REPRODUCED' if ok else 'not reproduced'} — {desc}")
    if ok:
        run.violation(blob["class"], blob["key"], blob["what"], w)
    else:
        run.ok("replay", blob["key"])


def main(run):
    args = run.args
    if args.replay:
        return do_replay_file(run, args.replay)
    tier = run.tier
    tmo = 80 if tier == "quick" else 420
    DEADLINE[0] = run.t0 + (215 if tier == "quick" else 1650)
    only = set(args.only.split(",")) if args.only else None
    scs = [(s, n) for s, n in scenarios(tier) if not only or s.name in only]
    tasks = []
    if not only or "seq" in only:
        tasks.append(("seq", None))
    # vacuity twins / translation validation first, then the class queries that usually are satisfiable (cheap), then
    # the expected-unsat ones, biggest scenarios first so that the pool stays busy
    for sc, N in scs:
        tasks.append(("scenario", (sc.to_json(), N, tmo)))
        full_tv = tier != "quick" or sc.name in ("j1-race-nowait", "j1-cb-nowait", "j2-earlyexit", "j2-cb-wait",
                                                 "j3-earlyexit")
        tasks.append(("tv", (sc.to_json(), min(N, 20), TV_VARIANTS if full_tv else TV_VARIANTS[:2], tmo)))
    big_first = sorted(scs, key=lambda x: -x[0].J * 100 - x[1])
    for qs in (["residual"], ["p3-toctou", "p3-early", "p3-wait"]):
        for sc, N in big_first:
            for q in qs:
                if q == "p3-wait":
                    if not any(op[0] == "shutdown" and op[1] for _, ops in list(sc.clients) + [(None, o) for o in sc.callbacks.values()]
                               for op in ops):
                        continue
                elif q.startswith("p3-") and not has_nowait(sc):
                    continue
                tasks.append(("query", (sc.to_json(), N, q, tmo)))

    ctx = mp.get_context("fork")
    results = []
    with ctx.Pool(processes=max(2, min(args.jobs, 15))) as pool:
        for rr in pool.imap_unordered(dispatch, tasks):
            for r in (rr if isinstance(rr, list) else [rr]):
                results.append(r)
                if args.verbose:
                    print("  done", {k: v for k, v in r.items() if k in ("kind", "scenario", "q", "status", "wall")},
                          flush=True)

    scen = {r["scenario"]: r for r in results if r["kind"] == "scenario"}
    wk = {}
    for r in results:
        w = wk.setdefault(r["kind"], [0, 0.0, 0.0])
        w[0] += 1
        w[1] += r.get("wall", 0.0)
        w[2] = max(w[2], r.get("wall", 0.0))
    run.extra["unit_walls"] = {k: {"units": v[0], "sum_s": round(v[1], 1), "max_s": round(v[2], 1)} for k, v in wk.items()}
    functions, table, tv_total, tv_ok, states, transitions, ce_ok = set(), {}, 0, 0, 0, 0, 0
    # ---- per-scenario: extraction, vacuity, translation validation
    for sc, N in scs:
        r = scen[sc.name]
        row = table.setdefault(sc.name, {"jobs": sc.J, "steps": N, "clients": [[n, [list(o) for o in ops]] for n, ops in
                                                                            sc.clients],
                                         "callbacks": {str(j): [list(o) for o in v] for j, v in sc.callbacks.items()}})
        if r.get("status") == "unsupported":
            run.inconc("extract", sc.name, "statement outside the translator vocabulary: " + r["reason"])
            row["extract"] = "unsupported: " + r["reason"]
            continue
        if r.get("status") == "error":
            run.harness_error(f"{sc.name}: {r['reason']}")
            continue
        functions |= set(r["functions"])
        run.solver_time += r["solver_s"]
        row.update(threads=r["threads"], nodes=r["nodes"], reach_terminal=r["reach-terminal"],
                   reach_full=r["reach-full"], exhaustive={"unsat": True, "sat": False}.get(r["not-exhaustive"]))
        if r["reach-terminal"] == "sat":
            run.ok("vacuity", sc.name + "/terminal-state-reachable")
        elif r["reach-terminal"] == "unsat":
            run.inconc("vacuity", sc.name, f"no terminal state reachable within {N} steps: the result-returns "
                                           f"obligation of this scenario is vacuous at this bound and is not claimed")
        else:
            run.inconc("vacuity", sc.name, "reachability twin undecided")
        tvs = [dict(r["complete"], variant="complete")] if "complete" in r else []
        for x in results:
            if x["kind"] == "tv" and x["scenario"] == sc.name:
                run.solver_time += x.get("solver_s", 0.0)
                if x.get("status") == "error":
                    run.harness_error(f"translation validation {sc.name}: {x['reason']}")
                tvs += [dict(v, variant=k) for k, v in x["variants"].items()]
        for t in tvs:
            if t.get("status") != "sat":
                continue
            tv_total += 1
            if t["match"]:
                tv_ok += 1
                run.ok("translation-validation", f"{sc.name}/{t['variant']}")
                run.sample({"tv": f"{sc.name}/{t['variant']}", "steps": t["steps"], "schedule": t["schedule"][:40]},
                           limit=3)
            else:
                run.harness_error(f"translation validation {sc.name}/{t['variant']}: real classes and extracted model "
                                  f"disagree: {t['reason']} {t['diffs'][:3]} schedule={t['schedule']}")
        row["tv"] = {t["variant"]: (t.get("status") if t.get("status") != "sat" else
                                    ("match" if t["match"] else "MISMATCH")) for t in tvs}
        states += r["nodes"]
        transitions += r["transitions"]
    # ---- queries
    found = {}
    for r in results:
        if r["kind"] != "query":
            continue
        name, q = r["scenario"], r["q"]
        cls = QUERY_CLASS[q]
        row = table[name].setdefault("queries", {})
        okey = f"{name}/{q}"
        st = r.get("status")
        run.solver_time += r.get("solver_s", 0.0)
        if r.get("backend"):
            run.backend_wins[r["backend"]] = run.backend_wins.get(r["backend"], 0) + 1
        row[q] = f"{st} {r.get('solver_s', 0):.1f}s"
        if st == "unsupported":
            run.inconc(cls, okey, "unsupported: " + r["reason"])
        elif st == "error":
            if q == "residual":
                row.pop(q, None)
            run.harness_error(f"{okey}: {r['reason']}")
        elif st == "unsat":
            if r.get("joint"):
                row[q] += " (joint query)"
            if q == "deadlock" and scen[name].get("reach-terminal") != "sat":
                run.inconc(cls, okey, "no terminal state within the step bound: obligation vacuous at this bound")
            else:
                run.ok(cls, okey)
        elif st == "sat":
            row[q] += " reproduced" if r["reproduced"] else " NOT reproduced"
            if r["reproduced"]:
                ce_ok += 1
                found.setdefault(r["key"], []).append(name)
                what = (f"{r['key']}: scenario {name}, schedule {' '.join(r['schedule'])} — on the real classes: "
                        f"{r['desc']}")
                run.violation(cls, r["key"], what, r["witness"])
                run.sample({"finding": r["key"], "scenario": name, "schedule": r["schedule"], "real": r["desc"]},
                           limit=8)
            else:
                run.harness_error(f"{okey}: solver schedule did not reproduce on the real classes ({r['desc']}); "
                                  f"schedule={r['schedule']}")
                run.inconc(cls, okey, "satisfying schedule not reproduced on the real classes: " + r["desc"])
        elif st == "skipped":
            run.inconc(cls, okey, "not attempted: the tier's wall-clock budget was used up (machine overloaded)")
        else:
            run.inconc(cls, okey, f"solver answered {st} within its time limit (<= {tmo}s)")
    # ---- sequential obligation
    for r in results:
        if r["kind"] != "seq":
            continue
        if "error" in r:
            run.harness_error("sequential stub-solver obligation: " + r["error"])
        for c in r["cases"]:
            if c["case"].startswith("control"):
                if c["ok"]:
                    run.ok("seq-timeout-unknown", "control/" + c["case"], nontrivial=False)
                else:
                    run.harness_error(f"stub solver control case failed: {c}")
            elif c["ok"]:
                run.ok("seq-timeout-unknown", c["case"], nontrivial=False)
            else:
                run.violation("seq-timeout-unknown", "solve_low_level/" + c["case"],
                              f"real solve_low_level with a stub solver exceeding its time limit returned {c}", c)
        run.extra["sequential_cases"] = r["cases"]
    unsup = [f"{k}: {v['extract']}" for k, v in table.items() if "extract" in v]
    if unsup and len(unsup) == len(scs):
        run.harness_error("the extractor supports no scenario on the current processes.py (every schedule obligation "
                          "is inconclusive): " + unsup[0])
    elif tv_total == 0 and scs:
        run.harness_error("translation validation exercised no schedule")

    run.functions_encoded = sorted(functions) + ["solve.solve_low_level (sequential, real process)"]
    run.bounds = {"jobs": "1..3", "steps_per_scenario": {s.name: n for s, n in scs}, "atomicity": "statement level "
                  "(one step = one visible statement of processes.py plus the following thread-local statements)",
                  "scenarios": len(scs), "process_tree": "solver process without children (simulated)",
                  "environment": "symbolic per job: has a timeout, Popen raises OSError, process ignores SIGTERM; "
                                 "symbolic per step: process exits by itself, timeout fires while communicate() waits"}
    run.assumptions = [
        "statements that touch no shared state (locals, time.time(), closing the pipe objects) are merged into the "
        "preceding step of the same thread; they are assumed not to raise",
        "threading.Lock/Event, concurrent.futures.Future.set_result/result, ThreadPoolExecutor and the simulated "
        "Popen/psutil objects behave as their documented contract (validated by replay on the real objects)",
        "quiescent = no thread can take a step unless the environment acts (a process exits / a timeout fires); "
        "terminal = not even then",
    ]
    run.extra["states"] = states               # control locations of all thread CFGs (the data state is symbolic)
    run.extra["transitions"] = transitions     # guarded transitions (node outcomes) of all thread CFGs
    run.extra["traces_validated_against_impl"] = tv_ok + ce_ok
    run.extra["scenarios"] = table
    run.extra["translation_validation"] = {"schedules_replayed": tv_total, "matching": tv_ok}
    run.extra["confirmed_schedule_classes"] = found
    run.extra["queries_discharged"] = run.discharged
    run.extra["outside_the_claim"] = [
        "interleavings finer than one source statement (bytecode granularity, e.g. inside Future.set_result)",
        "real OS processes, signals and pipes under concurrency (only the sequential stub-solver cases use real ones)",
        "runs longer than the per-scenario step bound (see scenarios[*].exhaustive / reach_full)",
        "psutil.AccessDenied and other faults not listed under bounds.environment",
    ]
    run.extra["explanation"] = (
        "Each obligation is one SMT query over a symbolic schedule of the control-flow graphs extracted from "
        "processes.py; z3 4.12 builds the unrolling and finds the shallow satisfying schedules, yices-smt2 refutes the "
        "rest; satisfying schedules are replayed on the real classes before they count.")


if __name__ == "__main__":
    common.guarded_main("C17", "model_checking", main)
