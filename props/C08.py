"""C08 — storage reads return the last write to the same slot; no aliasing (DESIGN §1 C08).

Obligations O1/O2 on programs that store to and load from location expressions built from scalars, mappings, nested
mappings, dynamic arrays, struct offsets and nestings, with concrete and SYMBOLIC keys/indices, each location written in
several syntactic forms (runtime SHA3 of memory, PUSH32 <hash constant> + offset, reordered additions), base slots
including ones whose keccak lies within 3 of a multiple of 2^16, both --storage-layout values, storage and transient
storage.  The reference keeps one flat Array(256->256) per account and keccak as an uninterpreted function with the
A2 instances (injective, images >= 2^64 apart, range) generated for exactly the hash terms of the path; the solver
therefore covers every key valuation, colliding or not.
"""

from __future__ import annotations

import os
import sys

sys.path.insert(0, os.path.dirname(os.path.dirname(os.path.abspath(__file__))))

from lib import common, families, progcheck  # noqa: E402


def main(run: common.Run):
    tier = run.tier
    n = 30 if tier == "quick" else 400  # 1500 was tried once: see DESIGN 6.6 (open items)
    run.bounds = {"programs_per_layout": n, "stores_per_program": "2..4", "loads_per_program": "2..4",
                  "solver_cap_s": 20 if tier == "quick" else 120, "layouts": ["solidity", "generic"]}
    run.functions_encoded = ["halmos.sevm.SolidityStorage.{decode,load,store,init}", "halmos.sevm.GenericStorage.*",
                             "halmos.sevm.Exec.{sload,sstore,select,sha3_data}", "halmos.hashes (precomputed keccak tables)",
                             "halmos.sevm.SEVM.run (SLOAD/SSTORE/TLOAD/TSTORE/SHA3)"]
    run.assumptions = families.ASSUMPTIONS + [
        "A2 instances: every symbolic keccak image is in [2^64, 2^256-2^64]; two images with different preimages are "
        ">= 2^64 apart (also w.r.t. the hash constants embedded in the code)",
        "symbolic storage (enableSymbolicStorage) and the second-transaction reset of transient storage are outside this check",
    ]
    only = set(run.args.only.split(",")) if run.args.only else None
    plist = families.programs_c08(run.seed, n, tier, only=only)
    stats = progcheck.run_programs(run, plist, want=("O1", "O2"))
    run.extra.update(stats)
    run.extra["rule"] = ("one obligation per (program, halmos path, reference path) output comparison [O1] and per "
                         "reference path coverage [O2]; loaded values are the program's output bytes")
    if not only or "symst" in only:
        symbolic_storage_genericity(run)
    verify_tables(run)


def symbolic_storage_genericity(run):
    """With symbolic storage enabled, a load of a location that no earlier store of the path can have written must be an
    unconstrained initial value: for two different constants c the solver must find inputs + initial storage with
    PC and loaded == c.  (A load collapsing to the constant 0 makes the second query unsat.)"""
    import z3

    from lib import asm, exact, portfolio, progs
    from lib.families import _mk

    cd0, cd1 = [("PUSH", 4), "CALLDATALOAD"], [("PUSH", 36), "CALLDATALOAD"]

    def mp(p, key):
        return key + ["PUSH0", "MSTORE", ("PUSH", p), ("PUSH", 32), "MSTORE", ("PUSH", 64), "PUSH0", "SHA3"]

    def arr(p, idx):
        return [("PUSH", p), "PUSH0", "MSTORE", ("PUSH", 32), "PUSH0", "SHA3"] + idx + ["ADD"]

    def out(k):
        return [("PUSH", 0x400 + 32 * k), "MSTORE"]

    progs_ = {
        # m[a] = 5 ; load m[a+1]
        "map-other-key": [("PUSH", 5)] + mp(2, cd0) + ["SSTORE"] + mp(2, cd0 + [("PUSH", 1), "ADD"]) + ["SLOAD"] + out(0),
        "map-other-base": [("PUSH", 5)] + mp(2, cd0) + ["SSTORE"] + mp(3, cd0) + ["SLOAD"] + out(0),
        "scalar-after-scalar": [("PUSH", 5), ("PUSH", 0), "SSTORE", ("PUSH", 1), "SLOAD"] + out(0),
        "array-other-index": [("PUSH", 5)] + arr(1, [("PUSH", 0)]) + ["SSTORE"] + arr(1, [("PUSH", 1)]) + ["SLOAD"] + out(0),
        "nothing-written": mp(2, cd1) + ["SLOAD"] + out(0),
        # the first access happens after a fork, on both sides (the forked copy of the storage is still symbolic)
        "fork-then-map-load": cd1 + [("PUSHL", "t"), "JUMPI"] + mp(2, cd0) + ["SLOAD"] + out(0) + [
            ("PUSH", 32), ("PUSH", 0x400), "RETURN", ("LABEL", "t")] + mp(2, cd0) + ["SLOAD"] + out(0),
        "fork-then-scalar-load": cd1 + [("PUSH", 7), "LT", ("PUSHL", "t"), "JUMPI", ("PUSH", 3), "SLOAD"] + out(0) + [
            ("PUSH", 32), ("PUSH", 0x400), "RETURN", ("LABEL", "t"), ("PUSH", 3), "SLOAD"] + out(0),
        "store-fork-then-other-load": [("PUSH", 5)] + mp(2, cd0) + ["SSTORE"] + cd1 + [("PUSHL", "t"), "JUMPI"] + mp(3, cd0) + ["SLOAD"] + out(0) + [
            ("PUSH", 32), ("PUSH", 0x400), "RETURN", ("LABEL", "t")] + mp(3, cd0) + ["SLOAD"] + out(0),
        "two-stores-then-third": [("PUSH", 5)] + mp(2, cd0) + ["SSTORE", ("PUSH", 6)] + mp(2, cd0 + [("PUSH", 1), "ADD"]) + [
            "SSTORE"] + mp(2, cd0 + [("PUSH", 2), "ADD"]) + ["SLOAD"] + out(0),
    }
    for layout in ("solidity", "generic"):
        for name, items in progs_.items():
            key = f"symst/{layout}/{name}"
            p = _mk(f"symst{layout[0]}#{name}", items + [("PUSH", 32), ("PUSH", 0x400), "RETURN"], features=(name,))
            p.options, p.balances, p.callvalue_zero, p.storage_symbolic = {"storage_layout": layout}, (), True, True
            try:
                inp = progs.Inputs(p)
                sevm, recs, hdata = progs.run_halmos(p, inp)
            except Exception as e:
                run.inconc("symbolic-storage", key, f"engine raised {type(e).__name__}: {e}")
                continue
            ok_paths = [(r, d) for r, d in zip(recs, hdata) if r.error is None and d is not None and len(d) == 32]
            if not ok_paths:
                run.inconc("symbolic-storage", key, "no successful path")
                continue
            for r, d in ok_paths:
                w = z3.Concat(*[exact.inline(b) for b in d])
                pc = [exact.inline(c) for c in r.conds]
                verdicts = []
                for c in (0, 0x5A5A5A5A):
                    res = portfolio.solve(pc + [w == z3.BitVecVal(c, 256)], timeout=run.bounds.get("solver_cap_s", 20))
                    run.note_solver(res)
                    verdicts.append(res.status)
                if verdicts == ["sat", "sat"]:
                    run.ok("symbolic-storage", key)
                elif "unsat" in verdicts:
                    # confirm: the loaded word is forced to a single value on this path
                    sw = z3.simplify(w)
                    forced = str(sw)[:80] if z3.is_bv_value(sw) else "a value that cannot be " + hex(0 if verdicts[0] == "unsat" else 0x5A5A5A5A)
                    res2 = portfolio.solve(pc + [w == z3.BitVecVal(0x5A5A5A5A if verdicts[1] == "unsat" else 0, 256)],
                                           timeout=60, want_all=True)
                    if res2.status == "unsat":
                        run.violation("symbolic-storage", key,
                                      f"[{p.name}] with symbolic storage the load of a never-written location is not an "
                                      f"unconstrained initial value: it is forced to {forced}",
                                      {"program": p.name, "code": p.contracts[progs.THIS].hex(), "options": p.options,
                                       "verdicts": verdicts})
                    else:
                        run.inconc("symbolic-storage", key, f"solvers disagree on genericity: {verdicts} / {res2.answers}")
                else:
                    run.inconc("symbolic-storage", key, f"solver: {verdicts}")


def verify_tables(run):
    """the precomputed keccak tables are finite: check every entry against the real hash"""
    try:
        from eth_hash.auto import keccak

        import halmos.hashes as hh
    except Exception as e:
        run.inconc("tables", "import", f"{e}")
        return
    n = bad = 0
    for name in dir(hh):
        t = getattr(hh, name)
        if not isinstance(t, dict) or not t:
            continue
        for k, v in list(t.items()):
            # tables map hash(bytes) -> (preimage int, size bits) or the reverse; accept either orientation
            try:
                if isinstance(k, (bytes, bytearray)) and isinstance(v, tuple):
                    pre, bits = v[0], v[1] if len(v) > 1 else 256
                    ok = keccak(int(pre).to_bytes(bits // 8, "big")) == bytes(k)
                elif isinstance(k, (bytes, bytearray)) and isinstance(v, int):
                    ok = keccak(int(v).to_bytes(32, "big")) == bytes(k)
                else:
                    continue
            except Exception:
                continue
            n += 1
            if not ok:
                bad += 1
                if bad <= 3:
                    run.violation("tables", f"tables/{name}", f"halmos.hashes.{name}[{bytes(k).hex()}] = {v} is not its keccak preimage",
                                  {"table": name, "key": bytes(k).hex(), "value": str(v)})
    # the registry object the engine actually consults (halmos.utils.precomputed_keccak_registry): looking a table hash up
    # must give the hash EXPRESSION of its true preimage, with offset 0
    try:
        import z3

        from halmos.utils import precomputed_keccak_registry as reg
        keys = list(getattr(hh, "keccak256_256", {})) + list(getattr(hh, "keccak256_512", {}))
        m = badr = 0
        for k in keys:
            got = reg[k]
            if got is None or got == (None, None) or got[0] is None:
                badr += 1
                if badr <= 3:
                    run.violation("tables", "tables/registry-missing", f"precomputed_keccak_registry has no entry for the table hash {k:#x}", {"key": hex(k)})
                continue
            expr, delta = got
            arg = z3.simplify(expr.arg(0))
            pre = arg.as_long().to_bytes(arg.size() // 8, "big")
            m += 1
            if delta != 0 or keccak(pre) != int(k).to_bytes(32, "big"):
                badr += 1
                if badr <= 3:
                    run.violation("tables", "tables/registry-preimage", f"precomputed_keccak_registry[{k:#x}] = ({expr}, {delta}): the expression's "
                                  f"argument is not the keccak preimage of the key", {"key": hex(k), "expr": str(expr), "delta": delta})
        if m and not badr:
            run.ok("tables", f"registry-{m}-entries", nontrivial=False)
        n += m
    except Exception as e:
        run.inconc("tables", "registry", f"{type(e).__name__}: {e}")
    if n:
        run.ok("tables", f"{n}-entries", nontrivial=False)
    run.extra["keccak_table_entries_checked"] = n


if __name__ == "__main__":
    common.guarded_main("C08", "proof", main, generic_replay=True)
