"""C08 — storage reads return the last write to the same slot; no aliasing (DESIGN §1 C08).

Obligations O1/O2 on programs that store to and load from location expressions built from scalars, mappings, nested
mappings, dynamic arrays, struct offsets and nestings, with concrete and SYMBOLIC keys/indices, each location written in
several syntactic forms (runtime SHA3 of memory, PUSH32 <hash constant> + offset, reordered additions), base slots
including ones whose keccak lies within 3 of a multiple of 2^16, both --storage-layout values, storage and transient
storage.  The reference keeps one flat Array(256->256) per account and keccak as an uninterpreted function with the
A2 instances (injective, images >= 2^64 apart, range) generated for exactly the hash terms of the path; the solver
therefore covers every key valuation, colliding or not.
"""

from __future__ import annotations

import os
import sys

sys.path.insert(0, os.path.dirname(os.path.dirname(os.path.abspath(__file__))))

from lib import common, families, progcheck  # noqa: E402


def main(run: common.Run):
    tier = run.tier
    n = 30 if tier == "quick" else 400
    run.bounds = {"programs_per_layout": n, "stores_per_program": "2..4", "loads_per_program": "2..4",
                  "solver_cap_s": 20 if tier == "quick" else 120, "layouts": ["solidity", "generic"]}
    run.functions_encoded = ["halmos.sevm.SolidityStorage.{decode,load,store,init}", "halmos.sevm.GenericStorage.*",
                             "halmos.sevm.Exec.{sload,sstore,select,sha3_data}", "halmos.hashes (precomputed keccak tables)",
                             "halmos.sevm.SEVM.run (SLOAD/SSTORE/TLOAD/TSTORE/SHA3)"]
    run.assumptions = families.ASSUMPTIONS + [
        "A2 instances: every symbolic keccak image is in [2^64, 2^256-2^64]; two images with different preimages are "
        ">= 2^64 apart (also w.r.t. the hash constants embedded in the code)",
        "symbolic storage (enableSymbolicStorage) and the second-transaction reset of transient storage are outside this check",
    ]
    only = set(run.args.only.split(",")) if run.args.only else None
    plist = families.programs_c08(run.seed, n, tier, only=only)
    stats = progcheck.run_programs(run, plist, want=("O1", "O2"))
    run.extra.update(stats)
    run.extra["rule"] = ("one obligation per (program, halmos path, reference path) output comparison [O1] and per "
                         "reference path coverage [O2]; loaded values are the program's output bytes")
    verify_tables(run)


def verify_tables(run):
    """the precomputed keccak tables are finite: check every entry against the real hash"""
    try:
        from eth_hash.auto import keccak

        import halmos.hashes as hh
    except Exception as e:
        run.inconc("tables", "import", f"{e}")
        return
    n = bad = 0
    for name in dir(hh):
        t = getattr(hh, name)
        if not isinstance(t, dict) or not t:
            continue
        for k, v in list(t.items()):
            # tables map hash(bytes) -> (preimage int, size bits) or the reverse; accept either orientation
            try:
                if isinstance(k, (bytes, bytearray)) and isinstance(v, tuple):
                    pre, bits = v[0], v[1] if len(v) > 1 else 256
                    ok = keccak(int(pre).to_bytes(bits // 8, "big")) == bytes(k)
                elif isinstance(k, (bytes, bytearray)) and isinstance(v, int):
                    ok = keccak(int(v).to_bytes(32, "big")) == bytes(k)
                else:
                    continue
            except Exception:
                continue
            n += 1
            if not ok:
                bad += 1
                if bad <= 3:
                    run.violation("tables", f"tables/{name}", f"halmos.hashes.{name}[{bytes(k).hex()}] = {v} is not its keccak preimage",
                                  {"table": name, "key": bytes(k).hex(), "value": str(v)})
    if n:
        run.ok("tables", f"{n}-entries", nontrivial=False)
    run.extra["keccak_table_entries_checked"] = n


if __name__ == "__main__":
    common.guarded_main("C08", "proof", main)
