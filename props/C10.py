"""C10 — incomplete exploration is always reported (DESIGN §1 C10).

(A) engine level: loop programs (concrete and symbolic trip counts, nested, loop head at pc 0) under --loop 1..3 run on
    the real SEVM; whenever the coverage obligation O2 fails for some reference path (decided by the solver against the
    reference EVM, which unrolls further) the run must be flagged (`sevm.logs.bounded_loops` non-empty or a stuck path);
    loops whose condition is concrete must never be cut (no flag, O2 holds).
(B) test level through the real run_contract: regular tests, setUp and invariant-mode target calls with symbolic loops,
    --width / --depth limits and an unsupported feature.  Ground truth ("some admissible input fails") is a sat query on
    the reference paths (unrolled beyond the bound); a PASS on such a test must come with the corresponding warning
    (loop-bound / incomplete execution) or a non-zero bounded-loop count.
"""

from __future__ import annotations

import os
import sys

sys.path.insert(0, os.path.dirname(os.path.dirname(os.path.abspath(__file__))))

import z3  # noqa: E402

from lib import common, e2e, families, gen, oracle, progcheck, progs  # noqa: E402

FLAGS = ("loop unrolling bound", "incomplete execution")


def loop_programs(seed, n):
    out = []
    for k in range(n):
        for loopopt in (1, 2, 3):
            g = gen.G6(f"C10-{seed}-{k}", ncd=2)
            main, _ = g.f7_loop()
            sym = "loop-symbolic" in g.features
            p = families._mk_multi(f"L{loopopt}#{seed}-{k}", main, {}, features=g.features, loop_bound=10 if sym else None)
            p.options = {"loop": loopopt}
            p.concrete_loop = not sym
            out.append(p)
    # hand-written: symbolic trip count in memory / storage, do-while form, two sequential loops
    cd0 = [("PUSH", 4), "CALLDATALOAD"]
    R = [("PUSH", 0), "MSTORE", ("PUSH", 32), ("PUSH", 0), "RETURN"]
    forms = {
        "storage-counter": cd0 + [("PUSH", 7), "AND", ("PUSH", 1), "SSTORE", ("LABEL", "t"), ("PUSH", 1), "SLOAD", "ISZERO", ("PUSHL", "e"),
                                  "JUMPI", ("PUSH", 1), ("PUSH", 1), "SLOAD", "SUB", ("PUSH", 1), "SSTORE", ("PUSH", 2), "SLOAD",
                                  ("PUSH", 3), "ADD", ("PUSH", 2), "SSTORE", ("PUSHL", "t"), "JUMP", ("LABEL", "e"), ("PUSH", 2), "SLOAD"] + R,
        "do-while": cd0 + [("PUSH", 7), "AND", "PUSH0", ("LABEL", "t"), ("PUSH", 5), "ADD", "SWAP1", ("PUSH", 1), "SWAP1", "SUB", "SWAP1",
                           "DUP2", ("PUSHL", "t"), "JUMPI", "SWAP1", "POP"] + R,
        # old-solc `throw` style guard: the loop is left by a JUMPI to a non-JUMPDEST (exceptional halt)
        "throw-guard": cd0 + [("PUSH", 7), "AND", "PUSH0", ("LABEL", "t"), "DUP2", "DUP2", "LT", "ISZERO", ("PUSH", 2), "JUMPI", ("PUSH", 1), "ADD",
                              ("PUSHL", "t"), "JUMP"],
        "two-loops": cd0 + [("PUSH", 3), "AND", "PUSH0", ("LABEL", "a"), "DUP2", "DUP2", "LT", "ISZERO", ("PUSHL", "ae"), "JUMPI", ("PUSH", 1),
                            "ADD", ("PUSHL", "a"), "JUMP", ("LABEL", "ae"), "SWAP1", "POP", ("PUSH", 36), "CALLDATALOAD", ("PUSH", 3), "AND",
                            "PUSH0", ("LABEL", "b"), "DUP2", "DUP2", "LT", "ISZERO", ("PUSHL", "be"), "JUMPI", ("PUSH", 1), "ADD",
                            ("PUSHL", "b"), "JUMP", ("LABEL", "be"), "SWAP1", "POP", "ADD"] + R,
    }
    for nm, items in forms.items():
        for loopopt in (1, 2, 3):
            p = families._mk_multi(f"L{loopopt}#{nm}", items, {}, features=(nm, "loop-symbolic"), loop_bound=10)
            p.options = {"loop": loopopt}
            p.concrete_loop = False
            p.vtag = nm
            out.append(p)
    return out


def post_concrete(run, p, info, recs, ends):
    if getattr(p, "concrete_loop", False) and info["bounded_loops"]:
        run.violation("concrete-loop-never-cut", f"concrete-loop-cut/{'+'.join(p.features)}",
                      f"[{p.name}] a loop whose condition is concrete was cut by --loop {p.options.get('loop')} "
                      f"(bounded_loops={info['bounded_loops']})",
                      {"program": p.name, "code": {hex(a): c.hex() for a, c in p.contracts.items()}, "options": p.options})
    elif getattr(p, "concrete_loop", False):
        run.ok("concrete-loop-never-cut", p.name)


# ---------------------------------------------------------------------------------------------------------------------
def loop_fn(K, fail):
    """check(uint256 n): c = 0; for i < n: c++ ; if c == K -> fail"""
    return e2e.arg(0) + ["PUSH0", "PUSH0",  # n i c  (c on top)
                         ("LABEL", "top"), "DUP3", "DUP3", "LT", "ISZERO", ("PUSHL", "end"), "JUMPI",
                         ("PUSH", 1), "ADD", "SWAP1", ("PUSH", 1), "ADD", "SWAP1", ("PUSHL", "top"), "JUMP",
                         ("LABEL", "end"), ("PUSH", K), "EQ", ("PUSHL", "bad"), "JUMPI", "STOP", ("LABEL", "bad")] + fail


def counter_spec():
    loop = e2e.arg(0) + ["PUSH0", ("LABEL", "top"), "DUP2", "DUP2", "LT", "ISZERO", ("PUSHL", "end"), "JUMPI",
                         "PUSH0", "SLOAD", ("PUSH", 1), "ADD", "PUSH0", "SSTORE", ("PUSH", 1), "ADD", ("PUSHL", "top"), "JUMP",
                         ("LABEL", "end"), "STOP"]
    return e2e.Spec("Counter", fns=[("inc(uint256)", loop),
                                    ("x()", ["PUSH0", "SLOAD", "PUSH0", "MSTORE", ("PUSH", 32), "PUSH0", "RETURN"])])


def e2e_case(case):
    kind, par, tier = case
    rec = common.Recorder(tier=tier)
    cls = f"e2e/{kind}"
    ident = f"{kind}{par}"
    try:
        if kind == "test-loop":
            K, L = par
            spec = e2e.Spec("LoopT", fns=[("check_loop(uint256)", loop_fn(K, e2e.panic(1)))])
            o = e2e.run(spec, loop=L)
            state = oracle.post_setup(spec)
            truth = oracle.ground_truth(spec, "check_loop(uint256)", state, {}, loop_bound=K + 4)
            judge(rec, cls, ident, f"loop-test/K{'>' if K > L else '<='}L", o, "check_loop", truth,
                  f"check_loop(n) fails for n={K}, --loop {L}", dict(K=K, loop=L))
        elif kind == "test-width":
            W, = par
            # 4 paths by two symbolic branches; the failing one is explored last
            body = e2e.arg(0) + [("PUSH", 1), "AND", ("PUSHL", "a"), "JUMPI", "STOP", ("LABEL", "a")] + e2e.arg(0) + [
                ("PUSH", 2), "AND", ("PUSHL", "b"), "JUMPI", "STOP", ("LABEL", "b")] + e2e.arg(0) + [
                ("PUSH", 4), "AND", ("PUSHL", "c"), "JUMPI", "STOP", ("LABEL", "c")] + e2e.panic(1)
            spec = e2e.Spec("WidthT", fns=[("check_w(uint256)", body)])
            o = e2e.run(spec, width=W)
            state = oracle.post_setup(spec)
            truth = oracle.ground_truth(spec, "check_w(uint256)", state, {})
            judge(rec, cls, ident, "width", o, "check_w", truth, f"check_w fails for x&7==7, --width {W}", dict(width=W))
        elif kind == "test-depth":
            D, = par
            body = []
            for _ in range(40):
                body += [("PUSH", 1), "POP"]
            body += e2e.arg(0) + [("PUSH", 9), "EQ", ("PUSHL", "bad"), "JUMPI", "STOP", ("LABEL", "bad")] + e2e.panic(1)
            spec = e2e.Spec("DepthT", fns=[("check_d(uint256)", body)])
            o = e2e.run(spec, depth=D)
            state = oracle.post_setup(spec)
            truth = oracle.ground_truth(spec, "check_d(uint256)", state, {})
            judge(rec, cls, ident, "depth", o, "check_d", truth, f"check_d fails for x==9, --depth {D}", dict(depth=D))
        elif kind == "test-unsupported":
            # a symbolic memory offset stops the path: the failure behind it must not become a clean PASS
            body = e2e.arg(0) + [("PUSH", 5), "EQ", ("PUSHL", "go"), "JUMPI", "STOP", ("LABEL", "go")] + e2e.arg(1) + ["MLOAD", "POP"] + e2e.panic(1)
            spec = e2e.Spec("StuckT", fns=[("check_s(uint256,uint256)", body)])
            o = e2e.run(spec)
            r = o.result("check_s")
            if r is None:
                rec.ok(cls, ident)  # the whole contract errored: not a PASS
            elif r.exitcode == 0 and not any(w in m for _, m in o.warnings for w in FLAGS + ("internal-error", "Encountered")):
                rec.violation(cls, "unsupported-feature-clean-pass", "a path stopped by a symbolic memory offset (with a Panic "
                              "behind it) was reported as a clean PASS", {"stdout": o.stdout[-800:], "warnings": o.warnings})
            else:
                rec.ok(cls, ident)
        elif kind == "setup-loop":
            L = par[0]
            # setUp(): for i < (GAS & 7): s0 += 1  -- GAS is symbolic, so the loop condition is symbolic
            setup = ["GAS", ("PUSH", 7), "AND", "PUSH0", ("LABEL", "t"), "DUP2", "DUP2", "LT", "ISZERO", ("PUSHL", "e"), "JUMPI",
                     "PUSH0", "SLOAD", ("PUSH", 1), "ADD", "PUSH0", "SSTORE", ("PUSH", 1), "ADD", ("PUSHL", "t"), "JUMP", ("LABEL", "e"), "STOP"]
            test = ["PUSH0", "SLOAD", ("PUSH", 6), "EQ", ("PUSHL", "bad"), "JUMPI", "STOP", ("LABEL", "bad")] + e2e.panic(1)
            if len(par) > 1 and par[1] == "one":
                # ... and afterwards require(n >= L): the short exits revert, so exactly one setUp path survives the bound
                setup = setup[:-1] + ["POP", ("PUSH", L), "DUP2", "LT", ("PUSHL", "rv"), "JUMPI", "STOP", ("LABEL", "rv"), "PUSH0", "PUSH0", "REVERT"]
            spec = e2e.Spec("SetupLoopT", fns=[("setUp()", setup), ("check_s0()", test)])
            o = e2e.run(spec, loop=L)
            r = o.result("check_s0")
            flagged = any(w in m for _, m in o.warnings for w in FLAGS)
            if r is not None and r.exitcode == 0 and not flagged:
                rec.violation(cls, "setup-loop-clean-pass", f"setUp() contains a loop on a symbolic (GAS-dependent) condition that "
                              f"--loop {L} cuts (states with s0=6 exist on the EVM), yet the test passes with no loop-bound warning",
                              {"loop": L, "stdout": o.stdout[-800:], "warnings": o.warnings})
            else:
                rec.ok(cls, ident)
        elif kind == "invariant-loop":
            K, L, depth = par
            counter = counter_spec()
            inv = e2e.ext_call([("PUSH", 0), "SLOAD"], "x()", static=True) + ["POP", ("PUSH", 0x80), "MLOAD", ("PUSH", K), "EQ",
                                                                             ("PUSHL", "bad"), "JUMPI", "STOP", ("LABEL", "bad")] + e2e.panic(1)
            t = e2e.Spec("InvT", fns=[("setUp()", e2e.create_from_data("counter", store_slot=0)), ("invariant_x()", inv)],
                         data={"counter": counter.creation()})
            o = e2e.run(t, others=(counter,), loop=L, invariant_depth=depth)
            r = o.result("invariant_x")
            flagged = any(w in m for _, m in o.warnings for w in FLAGS) or (r is not None and (r.num_bounded_loops or 0) > 0)
            # ground truth: inc(K) reaches x == K in one call (concrete replay on the reference)
            reach = invariant_reachable(t, counter, K)
            if reach is None:
                rec.inconc(cls, ident, "reference could not replay inc(K)")
            elif r is not None and r.exitcode == 0 and reach and depth >= 1 and not flagged:
                rec.violation(cls, f"invariant-target-loop-clean-pass/K{'>' if K > L else '<='}L",
                              f"invariant x != {K} with target inc(uint256 n){{for i<n: x++}}: inc({K}) breaks it in one call, but "
                              f"--loop {L} --invariant-depth {depth} gives a clean PASS (no loop-bound warning, "
                              f"num_bounded_loops={r.num_bounded_loops})",
                              {"K": K, "loop": L, "depth": depth, "line": o.line("invariant_x"), "warnings": o.warnings})
            else:
                rec.ok(cls, ident)
        elif kind == "invariant-fn-loop":
            # the loop is in the invariant function itself (run against every frontier state): for i < x(): c++ ; c == 5 fails
            order, L = par
            pool = {"set(uint256)": [("PUSH", 8)] + e2e.arg(0) + ["LT", ("PUSHL", "rq"), "JUMPI", "PUSH0", "PUSH0", "REVERT", ("LABEL", "rq")]
                    + e2e.arg(0) + ["PUSH0", "SSTORE"], "mark()": [("PUSH", 1), ("PUSH", 1), "SSTORE"]}
            tgt = e2e.Spec("SetMark", fns=[(s, pool[s]) for s in order] + [("x()", ["PUSH0", "SLOAD", "PUSH0", "MSTORE", ("PUSH", 32), "PUSH0", "RETURN"])])
            inv = e2e.ext_call([("PUSH", 0), "SLOAD"], "x()", static=True) + ["POP", ("PUSH", 0x80), "MLOAD", "PUSH0", "PUSH0",
                                                                             ("LABEL", "top"), "DUP3", "DUP3", "LT", "ISZERO", ("PUSHL", "end"), "JUMPI",
                                                                             ("PUSH", 1), "ADD", "SWAP1", ("PUSH", 1), "ADD", "SWAP1", ("PUSHL", "top"), "JUMP",
                                                                             ("LABEL", "end"), ("PUSH", 5), "EQ", ("PUSHL", "bad"), "JUMPI", "STOP", ("LABEL", "bad")] + e2e.panic(1)
            t = e2e.Spec("InvLoopT", fns=[("setUp()", e2e.create_from_data("tgt", store_slot=0)), ("invariant_c()", inv)], data={"tgt": tgt.creation()})
            o = e2e.run(t, others=(tgt,), loop=L, invariant_depth=1)
            r = o.result("invariant_c")
            flagged = any(w in m for _, m in o.warnings for w in FLAGS) or (r is not None and (r.num_bounded_loops or 0) > 0)
            if r is not None and r.exitcode == 0 and not flagged and L < 5:
                rec.violation(cls, f"invariant-function-loop-clean-pass/{'+'.join(x.split('(')[0] for x in order)}",
                              f"invariant_c() loops x() times and fails at 5; set(5) breaks it in one call; --loop {L} cuts the loop on the "
                              f"frontier state after set(v) but the test is a clean PASS (targets in order {order})",
                              {"order": list(order), "loop": L, "line": o.line("invariant_c"), "warnings": o.warnings})
            else:
                rec.ok(cls, ident)
        elif kind == "stuck-unknown-solver":
            # the feasibility query of a stuck path is answered `unknown` / garbage / nothing by the solver: still not a clean PASS
            reply, = par
            import stat
            import tempfile

            d = tempfile.mkdtemp(prefix="verif_c10_")
            try:
                stub = os.path.join(d, "stub.sh")
                with open(stub, "w") as fh:
                    fh.write("#!/bin/sh\n" + {"unknown": "echo unknown", "garbage": "echo '(error \"boom\")'", "empty": "true",
                                               "exit3": "exit 3"}[reply] + "\n")
                os.chmod(stub, os.stat(stub).st_mode | stat.S_IEXEC)
                body = e2e.arg(0) + [("PUSH", 5), "EQ", ("PUSHL", "go"), "JUMPI", "STOP", ("LABEL", "go")] + e2e.arg(1) + ["MLOAD", "POP", "STOP"]
                spec = e2e.Spec("StuckU", fns=[("check_s(uint256,uint256)", body)])
                o = e2e.run(spec, solver_command=stub)
            finally:
                import shutil

                shutil.rmtree(d, ignore_errors=True)
            r = o.result("check_s")
            if r is not None and r.exitcode == 0:
                rec.violation(cls, f"stuck-path-dropped/{reply}", f"a path stopped by a symbolic memory offset whose feasibility query the solver "
                              f"answers with '{reply}' was dropped: clean PASS", {"reply": reply, "line": o.line("check_s"), "warnings": o.warnings})
            else:
                rec.ok(cls, ident)
        elif kind == "depth-second-contract":
            # two contracts with a test of the same signature, both cut by --depth, run one after the other in one process
            def mk(name, k):
                body = e2e.arg(0) + [("PUSH", 1), "EQ", ("PUSHL", "long"), "JUMPI", "STOP", ("LABEL", "long")]
                for _ in range(40):
                    body += [("PUSH", 1), "POP"]
                body += e2e.arg(0) + [("PUSH", k), "ADD", ("PUSH", k + 1), "EQ", ("PUSHL", "bad"), "JUMPI", "STOP", ("LABEL", "bad")] + e2e.panic(1)
                return e2e.Spec(name, fns=[("check_dd(uint256)", body)])

            outs = [e2e.run(mk(nm, k), depth=37) for nm, k in (("DepthA", 9), ("DepthB", 11))]
            for nm, o in zip(("DepthA", "DepthB"), outs):
                r = o.result("check_dd")
                flagged = any(w in m for _, m in o.warnings for w in FLAGS)
                if r is not None and r.exitcode == 0 and not flagged:
                    rec.violation(cls, f"depth-warning-missing/{'first' if nm == 'DepthA' else 'later'}-contract",
                                  f"{nm}.check_dd(uint256) has a path cut by --depth 37 with a Panic behind it (x == 1) but passes with "
                                  "no 'incomplete execution' warning" + (" (an earlier contract printed the same text)" if nm == "DepthB" else ""),
                                  {"contract": nm, "line": o.line("check_dd"), "warnings": o.warnings})
                else:
                    rec.ok(cls, f"{ident}/{nm}")
        elif kind == "depth-second-test":
            # two invariant tests of ONE contract; the same target function is cut by --depth with the invariant-breaking state
            # behind the cut.  mode "deeper": the second test explores one level more than the first (new target calls, cut
            # again); mode "same": both tests use the same depth, the second re-uses the cached frontier of the first
            mode, = par
            import halmos.__main__ as hm
            from halmos.logs import warn as hwarn

            long_ = []
            for _ in range(200):
                long_ += [("PUSH", 1), "POP"]
            step = e2e.arg(0) + [("PUSH", 1), "EQ", ("PUSHL", "long"), "JUMPI", "PUSH0", "SLOAD", ("PUSH", 1), "ADD", "PUSH0", "SSTORE", "STOP",
                                 ("LABEL", "long")] + long_ + [("PUSH", 50), "PUSH0", "SSTORE"]
            tgt = e2e.Spec("Stepper", fns=[("step(uint256)", step), ("x()", ["PUSH0", "SLOAD", "PUSH0", "MSTORE", ("PUSH", 32), "PUSH0", "RETURN"])])
            inv = e2e.ext_call([("PUSH", 0), "SLOAD"], "x()", static=True) + ["POP", ("PUSH", 0x80), "MLOAD", ("PUSH", 50), "EQ", ("PUSHL", "bad"),
                                                                             "JUMPI", "STOP", ("LABEL", "bad")] + e2e.panic(1)
            t = e2e.Spec("DepthTwoT", fns=[("setUp()", e2e.create_from_data("tgt", store_slot=0)), ("invariant_a()", inv), ("invariant_b()", list(inv))],
                         data={"tgt": tgt.creation()}, devdoc={"invariant_a()": "--invariant-depth 1"} if mode == "deeper" else {})
            real = hm.run_test

            def marked(ctx):
                hwarn(f"@@TEST {ctx.info.sig}")
                return real(ctx)

            hm.run_test = marked
            try:
                # (the default --invariant-depth is 2; given on the command line it would override the annotation of invariant_a)
                o = e2e.run(t, others=(tgt,), depth=150)
            finally:
                hm.run_test = real
            per, cur = {}, None
            for lvl, m in o.warnings:
                if m.startswith("@@TEST "):
                    cur = m.split(" ", 1)[1].strip()
                    per[cur] = []
                elif cur is not None:
                    per[cur].append(m)
            for fn in ("invariant_a()", "invariant_b()"):
                r = o.result(fn.split("(")[0])
                flagged = any(w in m for m in per.get(fn, []) for w in FLAGS)
                if r is None or fn not in per:
                    rec.inconc(cls, f"{ident}/{fn}", f"no result / no marker ({o.exception!r})")
                elif r.exitcode == 0 and not flagged:
                    which = "first" if fn == "invariant_a()" else ("later-deeper" if mode == "deeper" else "cached-frontier")
                    rec.violation(cls, f"depth-warning-missing/{which}-invariant-test",
                                  f"DepthTwoT.{fn}: target calls step(1) of its call sequences are cut by --depth 150 with the "
                                  "invariant-breaking state behind the cut, yet no 'incomplete execution' warning is logged while this test "
                                  "runs and it passes" + ("" if fn == "invariant_a()" else
                                                          " (the warning was logged once, while the previous test of the contract ran)"),
                                  {"test": fn, "mode": mode, "line": o.line(fn.split("(")[0]), "warnings_per_test": per})
                else:
                    rec.ok(cls, f"{ident}/{fn}")
        elif kind == "setup-stuck":
            # setUp() stops on an unsupported opcode, in its own frame or inside a contract it calls
            where, = par
            if where == "own":
                t = e2e.Spec("SetupStuckT", fns=[("setUp()", [0x49, "POP", ("PUSH", 7), ("PUSH", 1), "SSTORE"]), ("check_x()", ["STOP"])])
                o = e2e.run(t)
            else:
                callee = e2e.Spec("Callee", fns=[("poke()", [0x49, "POP", "STOP"])])
                setup = e2e.create_from_data("c", store_slot=0) + e2e.ext_call([("PUSH", 0), "SLOAD"], "poke()") + ["POP", ("PUSH", 7), ("PUSH", 1), "SSTORE"]
                t = e2e.Spec("SetupStuckT", fns=[("setUp()", setup), ("check_x()", ["STOP"])], data={"c": callee.creation()})
                o = e2e.run(t, others=(callee,))
            r = o.result("check_x")
            reported = any(("0x49" in m or "nsupported" in m or "internal-error" in m) for _, m in o.warnings)
            if r is not None and r.exitcode == 0 and not reported:
                rec.violation(cls, f"setup-stuck-clean-pass/{where}", f"setUp() stops on an unsupported opcode ({where} frame) but is treated as a "
                              "completed setup: the test then passes with no warning", {"where": where, "line": o.line("check_x"), "log": o.warnings})
            else:
                rec.ok(cls, ident)
        elif kind == "invariant-target-unsupported":
            weird = e2e.arg(0) + ["MLOAD", "POP", "STOP"]
            tgt = e2e.Spec("Weird", fns=[("weird(uint256)", weird), ("x()", ["PUSH0", "SLOAD", "PUSH0", "MSTORE", ("PUSH", 32), "PUSH0", "RETURN"])])
            inv = e2e.ext_call([("PUSH", 0), "SLOAD"], "x()", static=True) + ["POP", "STOP"]
            t = e2e.Spec("InvWeirdT", fns=[("setUp()", e2e.create_from_data("tgt", store_slot=0)), ("invariant_w()", inv)], data={"tgt": tgt.creation()})
            o = e2e.run(t, others=(tgt,), invariant_depth=1)
            r = o.result("invariant_w")
            reported = any(("symbolic" in m or "NotConcrete" in m or "internal-error" in m) for _, m in o.warnings)
            if r is not None and r.exitcode == 0 and not reported:
                rec.violation(cls, "invariant-target-stuck-silent", "a target call stopped by an unsupported feature (symbolic memory offset) in "
                              "its own frame is neither logged nor reflected in the status: clean PASS",
                              {"line": o.line("invariant_w"), "log": o.warnings})
            else:
                rec.ok(cls, ident)
    except oracle.OracleError as e:
        rec.inconc(cls, ident, f"oracle: {e}")
    except Exception as e:
        import traceback

        rec.harness_error(f"{ident}: {type(e).__name__}: {e} | {traceback.format_exc().strip().splitlines()[-2][:120]}")
    return rec.events, {}


def invariant_reachable(t, counter, K):
    """concrete reference run: setUp, then Counter.inc(K), then read x"""
    from lib import refevm
    from lib.refevm import bv

    try:
        o = e2e.run(t, others=(counter,), invariant_depth=0)  # to learn the CREATE address halmos uses (A5 oracle)
        addr = 0xAAAA0002
        accounts, bal, env = oracle.post_setup(t, address_oracle=[addr])
    except Exception:
        return None
    ev = oracle._ev()
    cd = [bv(b, 8) for b in e2e.selector("inc(uint256)")] + refevm.word_bytes(bv(K))
    ends = ev.run_tx(accounts, bal, addr, bv(0x1234), bv(0x1234), bv(0), cd, env=dict(env))
    if len(ends) != 1 or not ends[0].success:
        return None
    x = refevm.conc(refevm.simp(z3.Select(ends[0].state.accounts[addr].storage, bv(0))))
    return x == K


def judge(rec, cls, ident, key, o, fn, truth, what, witness):
    r = o.result(fn)
    if r is None:
        rec.ok(cls, ident)  # no result = not a PASS
        return
    rec.events.append(("solver", truth.solver_time, "portfolio"))
    flagged = any(w in m for _, m in o.warnings for w in FLAGS) or (r.num_bounded_loops or 0) > 0
    if truth.status == "unknown":
        rec.inconc(cls, ident, f"ground truth undecided: {truth.detail}")
    elif r.exitcode == 0 and truth.status == "fails" and not flagged:
        rec.violation(cls, key, f"{what}: clean PASS with no warning although the failure is reachable "
                      f"(witness {truth.witness})", dict(witness, truth=truth.witness, line=o.line(fn), warnings=o.warnings))
    else:
        rec.ok(cls, ident)
        if r.exitcode == 0 and flagged:
            rec.events.append(("ok", cls + "/flagged-pass", ident, False))


def main(run: common.Run):
    tier = run.tier
    n = 10 if tier == "quick" else 400
    run.bounds = {"loop_programs": 3 * n + 9, "loop_option": [1, 2, 3], "reference_unrolling": 10, "solver_cap_s": 20 if tier == "quick" else 120,
                  "e2e": "K in 1..5 x loop in 1..3; width 1..4; depth 20/200; invariant depth 1..2"}
    run.functions_encoded = ["halmos.sevm.SEVM.jumpi (loop bound)", "halmos.sevm.SEVM.run (--depth)", "halmos.__main__.run_test (--width, LOOP_BOUND)",
                             "halmos.__main__.setup (LOOP_BOUND)", "halmos.__main__.run_target_function / _compute_frontier (invariant calls)"]
    run.assumptions = families.ASSUMPTIONS[:4] + ["the reference unrolls symbolic loops 10 times; inputs needing more are outside"]
    only = set(run.args.only.split(",")) if run.args.only else None
    if not only or "A" in only:
        stats = progcheck.run_programs(run, loop_programs(run.seed, n), want=("O2",), post=post_concrete)
        run.extra.update(stats)
    if not only or "B" in only:
        cases = [("test-loop", (K, L), tier) for K in (1, 2, 3, 4, 5) for L in (1, 2, 3)]
        cases += [("test-width", (W,), tier) for W in (1, 2, 3, 8)] + [("test-depth", (D,), tier) for D in (20, 60, 400)]
        cases += [("test-unsupported", (), tier)] + [("setup-loop", (L,), tier) for L in (1, 2, 3)] + [("setup-loop", (L, "one"), tier) for L in (1, 2, 3)]
        cases += [("invariant-loop", (K, L, d), tier) for K in (1, 3, 5) for L in (1, 2, 6) for d in (1, 2)]
        cases += [("invariant-fn-loop", (order, L), tier) for order in (("set(uint256)", "mark()"), ("mark()", "set(uint256)")) for L in (1, 2, 3)]
        cases += [("stuck-unknown-solver", (rp,), tier) for rp in ("unknown", "garbage", "empty", "exit3")]
        cases += [("invariant-target-unsupported", (), tier), ("setup-stuck", ("own",), tier), ("setup-stuck", ("callee",), tier),
                  ("depth-second-contract", (), tier), ("depth-second-test", ("deeper",), tier), ("depth-second-test", ("same",), tier)]
        for res in common.parallel_map(e2e_case, cases, 6):
            if res and res[0] == "error":
                run.harness_error("worker crashed: " + res[1].strip().splitlines()[-1])
                continue
            common.replay_events(run, res[0])
    run.extra["rule"] = ("engine level: one O2 coverage query per reference path (unflagged escape = violation); test level: one "
                         "ground-truth sat query per test, a clean PASS on a reachable failure = violation")


if __name__ == "__main__":
    common.guarded_main("C10", "proof", main, generic_replay=True)
