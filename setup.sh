#!/bin/bash
# Offline setup: builds the CrossHair overlay venv used by Route P (idempotent).
set -u
cd "$(dirname "$0")"
if [ ! -x .venv/bin/crosshair ]; then
  rm -rf .venv
  /venv/bin/python -m venv .venv || exit 1
  sp=$(.venv/bin/python -c 'import site; print(site.getsitepackages()[0])')
  printf '%s\n%s\n' "/venv/lib/python3.12/site-packages" "/repo/src" > "$sp/zz_overlay.pth"
  PIP_NO_INDEX=1 .venv/bin/pip install -q --no-index --find-links /opt/veriftools/wheels crosshair-tool || exit 1
fi
.venv/bin/python -c "import crosshair, halmos; print('overlay ok', halmos.__file__)" || exit 1
mkdir -p evidence replays
